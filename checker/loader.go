package main

// Loading of /repo's current working tree into a type-checked program, SSA
// form and call graphs. Nothing here runs Miller.

import (
	"fmt"
	"go/ast"
	"go/token"
	"go/types"
	"os"
	"path/filepath"
	"sort"
	"strings"

	"golang.org/x/tools/go/callgraph"
	"golang.org/x/tools/go/callgraph/cha"
	"golang.org/x/tools/go/callgraph/vta"
	"golang.org/x/tools/go/packages"
	"golang.org/x/tools/go/ssa"
	"golang.org/x/tools/go/ssa/ssautil"
)

const modPath = "github.com/johnkerl/miller/v6"

// The generated LR parser is empty at the pinned commit; this stub lets the
// rest of the program type-check. It is applied only if the file on disk is
// empty (or whitespace).
const parserStub = `package parser

import (
	"github.com/johnkerl/pgpg/go/lib/pkg/asts"
	liblexers "github.com/johnkerl/pgpg/go/lib/pkg/lexers"
)

type MlrParser struct{}

func NewMlrParser() *MlrParser { return &MlrParser{} }

func (p *MlrParser) Parse(lexer liblexers.AbstractLexer, source string) (*asts.AST, error) {
	return nil, nil
}
`

type Ctx struct {
	Repo      string
	Tier      string
	Fset      *token.FileSet
	Pkgs      []*packages.Package // module packages only, sorted by path
	AllPkgs   []*packages.Package // every package in the import closure
	PkgByPath map[string]*packages.Package
	Prog      *ssa.Program
	SSA       map[string]*ssa.Package // module packages by import path
	OverlayOn bool

	allFuncs map[*ssa.Function]bool
	chaCG    *callgraph.Graph
	vtaCG    *callgraph.Graph

	extraOverlay map[string]string // variants: repo-relative file → contents
	declOf map[*types.Func]*ast.FuncDecl
	pkgOf  map[*types.Func]*packages.Package
	nFuncs int
}

func goEnv() []string {
	env := []string{}
	for _, e := range os.Environ() {
		if strings.HasPrefix(e, "GOWORK=") || strings.HasPrefix(e, "GOFLAGS=") ||
			strings.HasPrefix(e, "GOPROXY=") || strings.HasPrefix(e, "GOTOOLCHAIN=") ||
			strings.HasPrefix(e, "GOSUMDB=") {
			continue
		}
		env = append(env, e)
	}
	env = append(env, "GOWORK=off", "GOFLAGS=-mod=mod", "GOPROXY=off", "GOTOOLCHAIN=local", "GOSUMDB=off")
	// /repo needs go >= 1.25; the sandbox's default go is older. Prefer the
	// pre-installed newer toolchain when present.
	const newer = "/opt/veriftools/go1.26.8/bin"
	if st, err := os.Stat(newer); err == nil && st.IsDir() {
		for i, e := range env {
			if strings.HasPrefix(e, "PATH=") && !strings.HasPrefix(e, "PATH="+newer) {
				env[i] = "PATH=" + newer + ":" + strings.TrimPrefix(e, "PATH=")
			}
		}
	}
	return env
}

// Load type-checks ./cmd/mlr and ./pkg/... of repo. needSSA builds SSA.
// extraOverlay maps repo-relative file names to replacement contents (used by
// the self-test variants only).
func Load(repo, tier string, needSSA bool, extraOverlay map[string]string) (*Ctx, error) {
	c := &Ctx{Repo: repo, Tier: tier, PkgByPath: map[string]*packages.Package{}, SSA: map[string]*ssa.Package{}, extraOverlay: extraOverlay}
	overlay := map[string][]byte{}
	pfile := filepath.Join(repo, "pkg/parsing/parser/parser.go")
	if b, err := os.ReadFile(pfile); err != nil || len(strings.TrimSpace(string(b))) == 0 {
		overlay[pfile] = []byte(parserStub)
		c.OverlayOn = true
	}
	for rel, content := range extraOverlay {
		overlay[filepath.Join(repo, rel)] = []byte(content)
	}
	c.Fset = token.NewFileSet()
	cfg := &packages.Config{
		Mode: packages.NeedName | packages.NeedFiles | packages.NeedCompiledGoFiles | packages.NeedImports |
			packages.NeedDeps | packages.NeedTypes | packages.NeedSyntax | packages.NeedTypesInfo |
			packages.NeedTypesSizes | packages.NeedModule,
		Dir:     repo,
		Fset:    c.Fset,
		Overlay: overlay,
		Env:     goEnv(),
		Tests:   false,
	}
	pkgs, err := packages.Load(cfg, "./cmd/mlr", "./pkg/...")
	if err != nil {
		return nil, fmt.Errorf("packages.Load: %v", err)
	}
	nerr := 0
	var firstErr string
	packages.Visit(pkgs, nil, func(p *packages.Package) {
		c.AllPkgs = append(c.AllPkgs, p)
		c.PkgByPath[p.PkgPath] = p
		if strings.HasPrefix(p.PkgPath, modPath) {
			c.Pkgs = append(c.Pkgs, p)
			for _, e := range p.Errors {
				nerr++
				if firstErr == "" {
					firstErr = e.Error()
				}
			}
		}
	})
	sort.Slice(c.Pkgs, func(i, j int) bool { return c.Pkgs[i].PkgPath < c.Pkgs[j].PkgPath })
	if nerr > 0 {
		return nil, fmt.Errorf("%d type/load errors in module packages; first: %s", nerr, firstErr)
	}
	if len(c.Pkgs) < 30 {
		return nil, fmt.Errorf("only %d module packages loaded (expected >= 30)", len(c.Pkgs))
	}
	c.declOf = map[*types.Func]*ast.FuncDecl{}
	c.pkgOf = map[*types.Func]*packages.Package{}
	for _, p := range c.Pkgs {
		for _, f := range p.Syntax {
			for _, d := range f.Decls {
				if fd, ok := d.(*ast.FuncDecl); ok {
					if obj, ok := p.TypesInfo.Defs[fd.Name].(*types.Func); ok {
						c.declOf[obj] = fd
						c.pkgOf[obj] = p
						c.nFuncs++
					}
				}
			}
		}
	}
	if needSSA {
		prog, _ := ssautil.AllPackages(pkgs, ssa.InstantiateGenerics)
		prog.Build()
		c.Prog = prog
		for _, p := range c.Pkgs {
			if sp := prog.Package(p.Types); sp != nil {
				c.SSA[p.PkgPath] = sp
			}
		}
	}
	return c, nil
}

func (c *Ctx) AllFunctions() map[*ssa.Function]bool {
	if c.allFuncs == nil {
		c.allFuncs = ssautil.AllFunctions(c.Prog)
	}
	return c.allFuncs
}

func (c *Ctx) CHA() *callgraph.Graph {
	if c.chaCG == nil {
		c.chaCG = cha.CallGraph(c.Prog)
	}
	return c.chaCG
}

func (c *Ctx) VTA() *callgraph.Graph {
	if c.vtaCG == nil {
		c.vtaCG = vta.CallGraph(c.AllFunctions(), c.CHA())
	}
	return c.vtaCG
}

// Pkg returns the module package with the given path relative to the module
// root, e.g. "pkg/bifs".
func (c *Ctx) Pkg(rel string) *packages.Package {
	return c.PkgByPath[modPath+"/"+rel]
}

func (c *Ctx) Rel(pos token.Pos) string {
	if !pos.IsValid() {
		return "?"
	}
	p := c.Fset.Position(pos)
	r, err := filepath.Rel(c.Repo, p.Filename)
	if err != nil {
		r = p.Filename
	}
	return fmt.Sprintf("%s:%d", r, p.Line)
}

func (c *Ctx) RelFile(pos token.Pos) string {
	p := c.Fset.Position(pos)
	r, err := filepath.Rel(c.Repo, p.Filename)
	if err != nil {
		r = p.Filename
	}
	return r
}

// LookupFunc finds a package-level function or method. name is "F",
// "T.M" or "(*T).M" (pointer-ness is ignored).
func (c *Ctx) LookupFunc(pkgRel, name string) *types.Func {
	p := c.Pkg(pkgRel)
	if p == nil {
		return nil
	}
	name = strings.TrimPrefix(name, "(*")
	name = strings.Replace(name, ")", "", 1)
	if i := strings.Index(name, "."); i >= 0 {
		tn, mn := name[:i], name[i+1:]
		obj := p.Types.Scope().Lookup(tn)
		if obj == nil {
			return nil
		}
		named, ok := obj.Type().(*types.Named)
		if !ok {
			return nil
		}
		for i := 0; i < named.NumMethods(); i++ {
			if named.Method(i).Name() == mn {
				return named.Method(i)
			}
		}
		return nil
	}
	if f, ok := p.Types.Scope().Lookup(name).(*types.Func); ok {
		return f
	}
	return nil
}

func (c *Ctx) Decl(f *types.Func) *ast.FuncDecl { return c.declOf[f] }
func (c *Ctx) PkgOfFunc(f *types.Func) *packages.Package {
	return c.pkgOf[f]
}

func (c *Ctx) SSAFunc(f *types.Func) *ssa.Function {
	if f == nil || c.Prog == nil {
		return nil
	}
	return c.Prog.FuncValue(f)
}

// FuncsOfPkg returns all declared funcs (with bodies) of a module package in
// source order.
func (c *Ctx) FuncsOfPkg(p *packages.Package) []*types.Func {
	var out []*types.Func
	for _, f := range p.Syntax {
		for _, d := range f.Decls {
			if fd, ok := d.(*ast.FuncDecl); ok && fd.Body != nil {
				if obj, ok := p.TypesInfo.Defs[fd.Name].(*types.Func); ok {
					out = append(out, obj)
				}
			}
		}
	}
	return out
}

// FuncName gives a stable readable name: pkg.F or pkg.(T).M
func FuncName(f *types.Func) string {
	if f == nil {
		return "<nil>"
	}
	pk := ""
	if f.Pkg() != nil {
		pk = strings.TrimPrefix(f.Pkg().Path(), modPath+"/")
	}
	sig := f.Type().(*types.Signature)
	if r := sig.Recv(); r != nil {
		t := r.Type()
		if pt, ok := t.(*types.Pointer); ok {
			t = pt.Elem()
		}
		if n, ok := t.(*types.Named); ok {
			return pk + "." + n.Obj().Name() + "." + f.Name()
		}
	}
	return pk + "." + f.Name()
}

func SSAName(f *ssa.Function) string {
	if f == nil {
		return "<nil>"
	}
	s := f.String()
	s = strings.ReplaceAll(s, modPath+"/", "")
	return s
}

// IsModuleFunc reports whether the SSA function belongs to the Miller module.
func IsModuleFunc(f *ssa.Function) bool {
	if f == nil {
		return false
	}
	if f.Pkg != nil {
		return strings.HasPrefix(f.Pkg.Pkg.Path(), modPath)
	}
	if f.Parent() != nil {
		return IsModuleFunc(f.Parent())
	}
	if o := f.Origin(); o != nil && o != f {
		return IsModuleFunc(o)
	}
	if f.Object() != nil && f.Object().Pkg() != nil {
		return strings.HasPrefix(f.Object().Pkg().Path(), modPath)
	}
	return false
}

// ReadRepoFile reads a (non-Go) source file of the repository, honouring the
// variant overlay so that self-test variants of e.g. mlr.bnf are seen.
func (c *Ctx) ReadRepoFile(rel string) ([]byte, error) {
	if s, ok := c.extraOverlay[rel]; ok {
		return []byte(s), nil
	}
	return os.ReadFile(filepath.Join(c.Repo, rel))
}
