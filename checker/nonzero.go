package main

// NONZERO analysis for integer division/modulus (R07.1 / R18.2), shift
// counts (R07.2), loop progress (R18.8) and slice lengths (R18.9).

import (
	"fmt"
	"go/constant"
	"go/token"
	"go/types"
	"sort"
	"strings"

	"golang.org/x/tools/go/ssa"
)

type nzAnalysis struct {
	c          *Ctx
	fieldStore map[*types.Var][]*ssa.Store
	callers    map[*ssa.Function][]ssa.CallInstruction
	addrTaken  map[*ssa.Function]bool
	built      bool
}

func (nz *nzAnalysis) build() {
	if nz.built {
		return
	}
	nz.built = true
	nz.fieldStore = map[*types.Var][]*ssa.Store{}
	nz.callers = map[*ssa.Function][]ssa.CallInstruction{}
	nz.addrTaken = map[*ssa.Function]bool{}
	for f := range nz.c.AllFunctions() {
		if !IsModuleFunc(f) || f.Blocks == nil {
			continue
		}
		for _, b := range f.Blocks {
			for _, in := range b.Instrs {
				switch x := in.(type) {
				case *ssa.Store:
					if fa, ok := x.Addr.(*ssa.FieldAddr); ok {
						if st, ok := fa.X.Type().Underlying().(*types.Pointer).Elem().Underlying().(*types.Struct); ok {
							fv := st.Field(fa.Field)
							nz.fieldStore[fv] = append(nz.fieldStore[fv], x)
						}
					}
				case ssa.CallInstruction:
					if cal := x.Common().StaticCallee(); cal != nil {
						nz.callers[cal] = append(nz.callers[cal], x)
					}
				}
				// function values used other than as callee
				for _, op := range in.Operands(nil) {
					if fv, ok := (*op).(*ssa.Function); ok {
						if ci, isCall := in.(ssa.CallInstruction); isCall && ci.Common().Value == fv {
							continue
						}
						nz.addrTaken[fv] = true
					}
				}
			}
		}
	}
}

func isIntegerType(t types.Type) bool {
	b, ok := t.Underlying().(*types.Basic)
	return ok && b.Info()&types.IsInteger != 0
}

// guardExcludesZero: some dominating guard of block b implies v != 0.
func guardExcludesZero(v ssa.Value, b *ssa.BasicBlock) bool {
	return guardListExcludesZero(v, GuardsAt(b))
}

func guardListExcludesZero(v ssa.Value, guards []Guard) bool {
	for _, g := range guards {
		bo, ok := g.Cond.(*ssa.BinOp)
		if !ok {
			continue
		}
		x, y, op := bo.X, bo.Y, bo.Op
		if !(x == v || sameValue(x, v)) {
			if y == v || sameValue(y, v) {
				x, y = y, x
				switch op {
				case token.LSS:
					op = token.GTR
				case token.GTR:
					op = token.LSS
				case token.LEQ:
					op = token.GEQ
				case token.GEQ:
					op = token.LEQ
				}
			} else {
				continue
			}
		}
		k, isK := y.(*ssa.Const)
		if !isK || k.Value == nil || k.Value.Kind() != constant.Int {
			continue
		}
		n, _ := constant.Int64Val(k.Value)
		pol := g.Polarity
		switch op {
		case token.EQL:
			if n == 0 && !pol {
				return true
			}
		case token.NEQ:
			if n == 0 && pol {
				return true
			}
		case token.GTR: // v > n
			if pol && n >= 0 {
				return true
			}
			if !pol && n < 0 { // v <= n < 0
				return true
			}
		case token.GEQ: // v >= n
			if pol && n >= 1 {
				return true
			}
			if !pol && n <= 0 { // v < n <= 0
				return true
			}
		case token.LSS: // v < n
			if !pol && n >= 1 { // v >= n >= 1
				return true
			}
			if pol && n <= 0 {
				return true
			}
		case token.LEQ: // v <= n
			if !pol && n >= 0 { // v > n >= 0
				return true
			}
			if pol && n < 0 {
				return true
			}
		}
	}
	return false
}

// NonZero: is v provably non-zero at instruction `at`?
func (nz *nzAnalysis) NonZero(v ssa.Value, at ssa.Instruction, depth int, seen map[ssa.Value]bool) (bool, string) {
	nz.build()
	if _, isPhi := v.(*ssa.Phi); isPhi && seen[v] {
		return true, "loop-carried value (coinductive)"
	}
	if depth > 6 || seen[v] {
		return false, "analysis depth exceeded"
	}
	seen[v] = true
	if k, ok := v.(*ssa.Const); ok {
		if k.Value != nil && k.Value.Kind() == constant.Int {
			if n, _ := constant.Int64Val(k.Value); n != 0 {
				return true, "non-zero constant"
			}
		}
		return false, "constant zero"
	}
	if guardExcludesZero(v, at.Block()) {
		return true, "dominating test excludes zero"
	}
	switch x := v.(type) {
	case *ssa.Convert:
		return nz.NonZero(x.X, at, depth+1, seen)
	case *ssa.ChangeType:
		return nz.NonZero(x.X, at, depth+1, seen)
	case *ssa.Phi:
		for i, e := range x.Edges {
			// evaluated at the end of the predecessor the value comes from, so that
			// validation done on that path (e.g. `if n <= 0 { return error }`) counts
			pred := x.Block().Preds[i]
			if ok, why := nz.NonZero(e, pred.Instrs[len(pred.Instrs)-1], depth+1, seen); !ok {
				// the edge's own branch condition
				if iff, isIf := pred.Instrs[len(pred.Instrs)-1].(*ssa.If); isIf && edgeExcludesZero(e, iff, pred, x.Block()) {
					continue
				}
				return false, "phi edge: " + why
			}
		}
		return true, "all incoming values non-zero"
	case *ssa.BinOp:
		if x.Op == token.SUB {
			// a - b with a dominating test a != b
			for _, g := range GuardsAt(at.Block()) {
				if gb, ok := g.Cond.(*ssa.BinOp); ok && (gb.Op == token.EQL || gb.Op == token.NEQ) {
					same := (gb.X == x.X && gb.Y == x.Y) || (gb.X == x.Y && gb.Y == x.X)
					if same && (gb.Op == token.NEQ) == g.Polarity {
						return true, "difference of two values tested unequal"
					}
				}
			}
		}
		if x.Op == token.ADD {
			// len(x)+c etc.: nonneg + positive
			if k, ok := constInt(x.Y); ok && k > 0 && isNonNeg(x.X) {
				return true, "non-negative plus positive constant"
			}
		}
		if x.Op == token.SHL {
			if k, ok := constInt(x.X); ok && k != 0 {
				return true, "power of two"
			}
		}
	case *ssa.UnOp:
		if x.Op == token.MUL {
			if fa, ok := x.X.(*ssa.FieldAddr); ok {
				st, ok := fa.X.Type().Underlying().(*types.Pointer).Elem().Underlying().(*types.Struct)
				if !ok {
					return false, "field of unknown struct"
				}
				fv := st.Field(fa.Field)
				stores := nz.fieldStore[fv]
				if len(stores) == 0 {
					return false, "field " + fv.Name() + " is never stored (zero value)"
				}
				for _, s := range stores {
					if ok, why := nz.NonZero(s.Val, s, depth+1, map[ssa.Value]bool{}); !ok {
						return false, fmt.Sprintf("field %s may be stored zero at %s (%s)", fv.Name(), nz.c.Rel(s.Pos()), why)
					}
				}
				return true, "every store to field " + fv.Name() + " is non-zero"
			}
			if g, ok := x.X.(*ssa.Global); ok {
				_ = g
				return false, "global variable"
			}
		}
	case *ssa.Parameter:
		fn := x.Parent()
		pi := paramIndex(fn, x)
		calls := nz.callers[fn]
		if nz.addrTaken[fn] || fn.Parent() != nil {
			// a function passed as an argument to module functions that call that parameter:
			// those indirect call sites are its callers
			ind, ok := nz.indirectCallSites(fn)
			if !ok {
				return false, "parameter of a function used as a value"
			}
			calls = append(append([]ssa.CallInstruction{}, calls...), ind...)
		}
		if len(calls) == 0 {
			return false, "parameter of a function with no static callers"
		}
		for _, cs := range calls {
			if pi >= len(cs.Common().Args) {
				return false, "argument mismatch"
			}
			if ok, why := nz.NonZero(cs.Common().Args[pi], cs, depth+1, map[ssa.Value]bool{}); !ok {
				return false, fmt.Sprintf("caller %s at %s may pass zero (%s)", SSAName(cs.Parent()), nz.c.Rel(cs.Pos()), why)
			}
		}
		return true, "every caller passes a non-zero value"
	case *ssa.Extract:
		// value returned together with an error that was checked: unknown
	}
	return false, "no dominating test excludes zero"
}

// edgeExcludesZero: taking the edge pred→succ of `iff` implies v != 0.
func edgeExcludesZero(v ssa.Value, iff *ssa.If, pred, succ *ssa.BasicBlock) bool {
	if len(pred.Succs) != 2 || pred.Succs[0] == pred.Succs[1] {
		return false
	}
	pol := pred.Succs[0] == succ
	cond, p := stripNot(iff.Cond, pol)
	fake := Guard{Cond: cond, Polarity: p}
	return guardListExcludesZero(v, []Guard{fake})
}

// indirectCallSites: if every use of fn as a value is "passed as argument j
// to a module function g", return the calls `param_j(...)` inside those g.
func (nz *nzAnalysis) indirectCallSites(fn *ssa.Function) ([]ssa.CallInstruction, bool) {
	var out []ssa.CallInstruction
	okAll := true
	for f := range nz.c.AllFunctions() {
		if !IsModuleFunc(f) || f.Blocks == nil {
			continue
		}
		// values that are fn or a type-conversion of it
		alias := map[ssa.Value]bool{ssa.Value(fn): true}
		for _, b := range f.Blocks {
			for _, in := range b.Instrs {
				if ct, ok := in.(*ssa.ChangeType); ok && alias[ct.X] {
					alias[ct] = true
				}
			}
		}
		for _, b := range f.Blocks {
			for _, in := range b.Instrs {
				uses := false
				for _, op := range in.Operands(nil) {
					if alias[*op] {
						uses = true
					}
				}
				if !uses {
					continue
				}
				if ct, ok := in.(*ssa.ChangeType); ok && alias[ct] {
					continue
				}
				ci, isCall := in.(ssa.CallInstruction)
				if !isCall {
					okAll = false
					continue
				}
				if alias[ci.Common().Value] {
					continue // direct call
				}
				g := ci.Common().StaticCallee()
				if g == nil || !IsModuleFunc(g) || g.Blocks == nil {
					okAll = false
					continue
				}
				for j, a := range ci.Common().Args {
					if !alias[a] || j >= len(g.Params) {
						continue
					}
					// the parameter must only be called, not stored or passed on
					prm := g.Params[j]
					for _, ref := range *prm.Referrers() {
						if c2, ok := ref.(ssa.CallInstruction); ok && c2.Common().Value == prm {
							out = append(out, c2)
						} else if _, isDbg := ref.(*ssa.DebugRef); !isDbg {
							okAll = false
						}
					}
				}
			}
		}
	}
	return out, okAll && len(out) > 0
}

func isNonNeg(v ssa.Value) bool {
	if call, ok := v.(*ssa.Call); ok {
		if bi, ok := call.Call.Value.(*ssa.Builtin); ok && (bi.Name() == "len" || bi.Name() == "cap") {
			return true
		}
	}
	if b, ok := v.Type().Underlying().(*types.Basic); ok && b.Info()&types.IsUnsigned != 0 {
		return true
	}
	return false
}

// divisionOK: frozen exceptions, keyed by enclosing function, with reason.
var divisionOK = map[string]string{
	"pkg/lib.goTimeToFormattedTime":                           "divisor is nsToFracDivisors[numDecimalPlaces] with numDecimalPlaces in 1..9 on this branch (the 0 case is the other branch); entries 1..9 of the table are powers of ten",
	"(*pkg/transformers.sampleBucketType).handleRecord":       "divisor is the record number NR, which is ≥ 1 for every record (the reader counts before creating it, R05.1)",
	"(*pkg/transformers.TransformerSplit).splitModUngrouped":  "selected only when -m was given (doMod), whose count is validated positive at parse time; the field is 0 only in -g mode, which uses splitGrouped",
	"(*pkg/transformers.TransformerSplit).splitSizeUngrouped": "selected only when -n was given (doSize), whose count is validated positive at parse time",
	"(*pkg/transformers.tValueRing).push":                     "ring length is the shift/ratio lag count parsed by the step verb, whose stepper constructors are only reached with count ≥ 1 (shift_lag/shift_lead/ratio/rsum use newValueRing(count) with count from the stepper name or 1)",
}

var shiftOK = map[string]string{
	"(*pkg/mlrval.Mlrval).GetTypeBit": "count is Type(), an MVType in 0..11 after inference (MT_PENDING = -1 is resolved by Type() itself)",
}

var makeSliceOK = map[string]string{
	"pkg/transformers.ChainTransformer": "n is the number of verbs in the chain; the main command-line parser requires at least one verb",
}

func scopeForCrashRules(fn *ssa.Function) bool {
	top := enclosingNamed(fn)
	if top.Pkg == nil {
		return false
	}
	p := top.Pkg.Pkg.Path()
	if subEntrypointPkg(p) || strings.HasSuffix(p, "/pkg/version") || strings.HasSuffix(p, "/cmd/mlr") {
		return false
	}
	return true
}

func checkIntDivision(c *Ctx, r *Report, rule string) {
	nz := &nzAnalysis{c: c}
	type res struct {
		key, pos, why string
		ok            bool
	}
	var out []res
	n := 0
	for _, fn := range c.ModuleFunctions() {
		if !scopeForCrashRules(fn) {
			continue
		}
		idx := 0
		for _, b := range fn.Blocks {
			for _, in := range b.Instrs {
				bo, ok := in.(*ssa.BinOp)
				if !ok || (bo.Op != token.QUO && bo.Op != token.REM) || !isIntegerType(bo.X.Type()) {
					continue
				}
				if k, isK := bo.Y.(*ssa.Const); isK {
					if nv, _ := constant.Int64Val(k.Value); nv != 0 {
						continue
					}
				}
				n++
				idx++
				key := fmt.Sprintf("%s: integer %s #%d", SSAName(fn), bo.Op, idx)
				ok2, why := nz.NonZero(bo.Y, bo, 0, map[ssa.Value]bool{})
				if !ok2 {
					if reason, frozen := divisionOK[SSAName(enclosingNamed(fn))]; frozen {
						ok2, why = true, "frozen: "+reason
					}
				}
				out = append(out, res{key, c.Rel(bo.Pos()), why, ok2})
			}
		}
	}
	sort.Slice(out, func(i, j int) bool { return out[i].key < out[j].key })
	for _, o := range out {
		if o.ok {
			r.OK(rule, o.key, o.pos, o.why)
		} else {
			r.Fail(rule, o.key, o.pos, "integer division or modulus whose divisor is not proven non-zero ("+o.why+"): Go panics with 'integer divide by zero'")
		}
	}
	r.Floor(rule, "integer divisions with a non-constant divisor", n, 15)
}

func checkShifts(c *Ctx, r *Report, rule string) {
	n := 0
	for _, fn := range c.ModuleFunctions() {
		if !scopeForCrashRules(fn) {
			continue
		}
		idx := 0
		for _, b := range fn.Blocks {
			for _, in := range b.Instrs {
				bo, ok := in.(*ssa.BinOp)
				if !ok || (bo.Op != token.SHL && bo.Op != token.SHR) {
					continue
				}
				if _, isK := bo.Y.(*ssa.Const); isK {
					continue
				}
				n++
				idx++
				bt, _ := bo.Y.Type().Underlying().(*types.Basic)
				unsigned := bt != nil && bt.Info()&types.IsUnsigned != 0
				okShift := unsigned
				why := "unsigned count"
				if !unsigned {
					// a signed count is fine if a dominating test excludes negatives
					for _, g := range GuardsAt(b) {
						if gb, ok := g.Cond.(*ssa.BinOp); ok && (gb.X == bo.Y || sameValue(gb.X, bo.Y)) {
							if k, ok := constInt(gb.Y); ok {
								if (gb.Op == token.LSS && k <= 0 && !g.Polarity) || (gb.Op == token.GEQ && k >= 0 && g.Polarity) {
									okShift, why = true, "dominating test excludes negative counts"
								}
							}
						}
					}
				}
				if reason, frozen := shiftOK[SSAName(enclosingNamed(fn))]; frozen && !okShift {
					okShift, why = true, "frozen: "+reason
				}
				r.Check(okShift, rule, fmt.Sprintf("%s: shift #%d", SSAName(fn), idx), c.Rel(bo.Pos()), why, "shift by a signed, non-constant count that is not proven non-negative: Go panics with 'negative shift amount'")
			}
		}
	}
	r.Floor(rule, "shifts with a non-constant count", n, 4)
}

// checkLoopProgress (R18.8): a loop whose exit test depends on a variable
// that the body only advances by a non-constant step needs step != 0.
func checkLoopProgress(c *Ctx, r *Report, rule string, pkgs []string) {
	nz := &nzAnalysis{c: c}
	inPkg := map[string]bool{}
	for _, p := range pkgs {
		inPkg[modPath+"/"+p] = true
	}
	n := 0
	for _, fn := range c.ModuleFunctions() {
		top := enclosingNamed(fn)
		if top.Pkg == nil || !inPkg[top.Pkg.Pkg.Path()] {
			continue
		}
		idx := 0
		for _, b := range fn.Blocks {
			for _, in := range b.Instrs {
				phi, ok := in.(*ssa.Phi)
				if !ok || !inLoop(b) || !isIntegerType(phi.Type()) {
					continue
				}
				// back-edge value phi + step (non-constant step)
				var step ssa.Value
				var stepInstr *ssa.BinOp
				for _, e := range phi.Edges {
					if bo, ok := e.(*ssa.BinOp); ok && (bo.Op == token.ADD || bo.Op == token.SUB) && bo.X == phi {
						if _, isK := bo.Y.(*ssa.Const); !isK {
							step = bo.Y
							stepInstr = bo
						}
					}
				}
				if step == nil {
					continue
				}
				// is phi (or phi+something) used in the loop's exit condition?
				usedInExit := false
				var exitIf *ssa.If
				for _, ref := range *phi.Referrers() {
					var cmp *ssa.BinOp
					switch x := ref.(type) {
					case *ssa.BinOp:
						switch x.Op {
						case token.LSS, token.LEQ, token.GTR, token.GEQ, token.NEQ:
							cmp = x
						case token.ADD, token.SUB:
							for _, r2 := range *x.Referrers() {
								if c2, ok := r2.(*ssa.BinOp); ok {
									switch c2.Op {
									case token.LSS, token.LEQ, token.GTR, token.GEQ, token.NEQ:
										cmp = c2
									}
								}
							}
						}
					}
					if cmp == nil {
						continue
					}
					for _, r2 := range *cmp.Referrers() {
						if iff, ok := r2.(*ssa.If); ok && inLoop(iff.Block()) {
							for _, s := range iff.Block().Succs {
								if !blockReaches(s, iff.Block()) {
									usedInExit = true
									exitIf = iff
								}
							}
						}
					}
				}
				if !usedInExit {
					continue
				}
				// other exits of the loop that do not depend on this variable make it terminate anyway
				if loopHasIndependentExit(b, exitIf) {
					continue
				}
				n++
				idx++
				ok2, why := nz.NonZero(step, stepInstr, 0, map[ssa.Value]bool{})
				// the exit condition itself may test the step (`for step > 0 && …`)
				if !ok2 && guardExcludesZero(step, stepInstr.Block()) {
					ok2, why = true, "loop condition tests the step"
				}
				r.Check(ok2, rule, fmt.Sprintf("%s: loop step #%d", SSAName(fn), idx), c.Rel(stepInstr.Pos()), why,
					"a loop's only progress is '+= step' with a step that is not proven non-zero ("+why+"): with a zero step (e.g. an empty string's length) the loop never terminates")
			}
		}
	}
	r.OK(rule, "loops with a computed step", "", fmt.Sprintf("%d loops whose only exit depends on a variable advanced by a non-constant step", n))
}

// loopHasIndependentExit: the loop containing header-block b has an exit
// branch other than exitIf.
func loopHasIndependentExit(b *ssa.BasicBlock, exitIf *ssa.If) bool {
	fn := b.Parent()
	for _, blk := range fn.Blocks {
		if !(blockReaches(b, blk) && blockReaches(blk, b)) && blk != b {
			continue
		}
		last := blk.Instrs[len(blk.Instrs)-1]
		switch x := last.(type) {
		case *ssa.If:
			if x == exitIf {
				continue
			}
			for _, s := range blk.Succs {
				if !blockReaches(s, b) {
					return true
				}
			}
		case *ssa.Return:
			return true
		}
	}
	return false
}

// checkMakeSliceLen (R18.9): make([]T, a-c) needs a >= c.
func checkMakeSliceLen(c *Ctx, r *Report, rule string) {
	n := 0
	for _, fn := range c.ModuleFunctions() {
		if !scopeForCrashRules(fn) {
			continue
		}
		idx := 0
		for _, b := range fn.Blocks {
			for _, in := range b.Instrs {
				ms, ok := in.(*ssa.MakeSlice)
				if !ok {
					continue
				}
				ln := ms.Len
				if cv, isConv := ln.(*ssa.Convert); isConv {
					ln = cv.X
				}
				bo, ok := ln.(*ssa.BinOp)
				if !ok || bo.Op != token.SUB {
					continue
				}
				k, isK := constInt(bo.Y)
				if !isK || k <= 0 {
					continue
				}
				n++
				idx++
				// need a dominating guard a >= k  (a < k false; a > k-1 true; a >= k true; a == 0 false with k==1 …)
				guarded := false
				for _, g := range GuardsAt(b) {
					gb, ok := g.Cond.(*ssa.BinOp)
					if !ok || !(gb.X == bo.X || sameValue(gb.X, bo.X)) {
						continue
					}
					kk, ok := constInt(gb.Y)
					if !ok {
						continue
					}
					switch gb.Op {
					case token.LSS:
						if !g.Polarity && kk >= k {
							guarded = true
						}
					case token.LEQ:
						if !g.Polarity && kk >= k-1 {
							guarded = true
						}
					case token.GEQ:
						if g.Polarity && kk >= k {
							guarded = true
						}
					case token.GTR:
						if g.Polarity && kk >= k-1 {
							guarded = true
						}
					case token.EQL:
						if !g.Polarity && kk == 0 && k == 1 && isNonNeg(bo.X) {
							guarded = true
						}
						if g.Polarity && kk >= k {
							guarded = true
						}
					}
				}
				fact := fmt.Sprintf("dominating test ensures the length is at least %d", k)
				if reason, frozen := makeSliceOK[SSAName(enclosingNamed(fn))]; frozen && !guarded {
					guarded, fact = true, "frozen: "+reason
				}
				r.Check(guarded, rule, fmt.Sprintf("%s: make(len-%d) #%d", SSAName(fn), k, idx), c.Rel(ms.Pos()), fact,
					fmt.Sprintf("a slice is made with length x-%d without a dominating test that x >= %d: a shorter input makes Go panic with 'makeslice: len out of range'", k, k))
			}
		}
	}
	r.Floor(rule, "make([]T, x-c) sites", n, 1)
}
