package main

// Shared rule: the verbs do not consult the reader's record counters
// (R05.10 for all verbs, R11.7 for the selecting verbs).

import (
	"fmt"
	"go/types"
	"strings"

	"golang.org/x/tools/go/ssa"
)

// functions allowed to read NR/FNR for something other than a message
var counterReadOK = map[string]string{
	"pkg/transformers.runSingleTransformerBatch": "the chain runner prints a progress line every --nr-progress-mod records: the counter decides a diagnostic on stderr, not the output",
}

// checkNoReaderCounters: within the given files of pkg/transformers (nil = all
// of pkg/transformers and its utils), every load of types.Context.NR or .FNR
// is used only as an argument of a formatted print (a diagnostic), or sits in
// a listed function. A verb that decides what to emit from the reader's NR
// behaves differently after any verb that drops, adds or reorders records,
// and differently in a then-chain and in a pipe. (The DSL's NR and FNR are
// read by the interpreter, in pkg/dsl/cst, from the context the put/filter
// verb hands over: not in the verbs.)
func checkNoReaderCounters(c *Ctx, r *Report, rule string, files []string, min int) {
	inScope := func(fn *ssa.Function) bool {
		if fn.Pkg == nil {
			return false
		}
		pp := fn.Pkg.Pkg.Path()
		if !(strings.HasSuffix(pp, "/pkg/transformers") || strings.HasSuffix(pp, "/pkg/transformers/utils")) {
			return false
		}
		if files == nil {
			return true
		}
		f := c.RelFile(fn.Pos())
		for _, want := range files {
			if strings.HasSuffix(f, "/"+want) {
				return true
			}
		}
		return false
	}
	nfun, nload := 0, 0
	for _, fn := range c.ModuleFunctions() {
		if fn.Blocks == nil || !inScope(fn) {
			continue
		}
		nfun++
		idx := 0
		for _, b := range fn.Blocks {
			for _, in := range b.Instrs {
				var fa ssa.Value
				var baseT string
				name := ""
				switch x := in.(type) {
				case *ssa.FieldAddr:
					if _, n, ok := fieldAddrName(x); ok {
						fa, name, baseT = x, n, x.X.Type().String()
					}
				case *ssa.Field:
					if st, ok := x.X.Type().Underlying().(*types.Struct); ok {
						fa, name, baseT = x, st.Field(x.Field).Name(), x.X.Type().String()
					}
				}
				if fa == nil || (name != "NR" && name != "FNR") {
					continue
				}
				if !strings.HasSuffix(strings.TrimPrefix(baseT, "*"), "pkg/types.Context") {
					continue
				}
				idx++
				nload++
				key := fmt.Sprintf("%s reads Context.%s #%d", SSAName(fn), name, idx)
				faPos := in.Pos()
				owner := fn
				for owner.Parent() != nil {
					owner = owner.Parent()
				}
				if why, ok := counterReadOK[SSAName(owner)]; ok {
					r.OK(rule, key, c.Rel(faPos), "frozen exception: "+why)
					continue
				}
				// every use of the loaded value is a print argument
				bad := ""
				var follow func(v ssa.Value, depth int)
				follow = func(v ssa.Value, depth int) {
					if bad != "" || depth > 6 {
						return
					}
					refs := v.Referrers()
					if refs == nil {
						return
					}
					for _, ref := range *refs {
						switch x := ref.(type) {
						case *ssa.UnOp:
							follow(x, depth+1)
						case *ssa.MakeInterface:
							follow(x, depth+1)
						case *ssa.Store:
							// stored into the varargs array of a print call
							if ia, ok := x.Addr.(*ssa.IndexAddr); ok && x.Val == v {
								follow(ia.X, depth+1)
								continue
							}
							bad = "stored at " + c.Rel(x.Pos())
						case *ssa.Slice:
							follow(x, depth+1)
						case *ssa.IndexAddr:
							// another slot of the varargs array being followed
						case ssa.CallInstruction:
							cn := CalleeName(x.Common())
							if strings.HasPrefix(cn, "fmt.") || strings.HasPrefix(cn, "log.") {
								continue
							}
							bad = "passed to " + cn + " at " + c.Rel(x.Pos())
						case *ssa.DebugRef:
						default:
							bad = fmt.Sprintf("used by %T at %s", ref, c.Rel(ref.Pos()))
						}
					}
				}
				follow(fa, 0)
				r.Check(bad == "", rule, key, c.Rel(faPos), "used only in a formatted message",
					fmt.Sprintf("%s reads the reader's %s and it is %s: what the verb emits then depends on how many records the reader has seen, not on how many reached this verb (after a filter, with -g, or in a pipe the two differ)", SSAName(fn), name, bad))
			}
		}
	}
	r.Floor(rule, "verb functions scanned for reads of the reader's counters", nfun, min)
	r.Infof("%s: %d reads of Context.NR/FNR in scope", rule, nload)
	if nload == 0 {
		r.OK(rule, "no read of the reader's counters in scope", "", fmt.Sprintf("%d functions scanned; the same scan finds the diagnostic reads reported under R05.10, and the thorough tier's variant C11-6 must make it report", nfun))
	}
}

