package main

// C18 — no panic / no hang, for the crash classes that are kind- or
// zero-dependent and therefore statically universal over kind tuples.

import (
	"fmt"
	"sort"
	"strings"

	"golang.org/x/tools/go/ssa"
)

func init() { register("C18", true, runC18) }

var kgPackages = []string{"pkg/bifs", "pkg/dsl/cst", "pkg/transformers", "pkg/transformers/utils", "pkg/output", "pkg/input", "pkg/runtime", "pkg/types", "pkg/lib"}

// unguardedOK: sites whose guard is a data-structure invariant, with reason; key "function: what".
var unguardedOK = map[string]string{
	"(*pkg/dsl/cst.DirectFieldValueLvalueNode).UnassignIndexed: InternalCodingErrorIf(IsString)": "lhsFieldName is built once from the field-name token of the program (mlrval.FromString of a non-empty name): an invariant of the CST builder, not data",
}

func runKindGuard(c *Ctx, r *Report, rule string, onlyTables func(*DispTable) bool) *KG {
	kg := NewKG(c)
	kg.Analyse(kgPackages)
	// (a) unguarded sites
	type agg struct {
		pos, what string
		known     VSet
		allowed   VSet
		n         int
	}
	nG, nP, nU := 0, 0, 0
	bad := map[string]*agg{}
	for _, s := range kg.Sites {
		switch s.Status {
		case "guarded":
			nG++
		case "precondition":
			nP++
		default:
			nU++
			what := s.What
			if i := strings.Index(what, " ("); i > 0 {
				what = what[:i]
			}
			key := SSAName(s.Fn) + ": " + what
			if a, ok := bad[key]; ok {
				a.n++
			} else {
				bad[key] = &agg{pos: c.Rel(s.Pos), what: s.What, known: s.Known, allowed: s.Allowed, n: 1}
			}
		}
	}
	if onlyTables == nil {
		var keys []string
		for k := range bad {
			keys = append(keys, k)
		}
		sort.Strings(keys)
		for _, k := range keys {
			a := bad[k]
			if why, ok := unguardedOK[k]; ok {
				r.OK(rule, "typed access in "+k, a.pos, "frozen: "+why)
				continue
			}
			r.Fail(rule, "typed access in "+k, a.pos, fmt.Sprintf("%s on a value that may be of kind %s (allowed %s) with no dominating kind test: aborts with an internal-coding-error / type-assertion panic (%d site(s))", a.what, (a.known&^a.allowed).String(), a.allowed.String(), a.n))
		}
		r.OK(rule, "typed-access sites", "", fmt.Sprintf("%d guarded by a dominating kind test, %d discharged as parameter preconditions, %d unguarded", nG, nP, nU))
		r.Floor(rule, "typed-access sites", nG+nP+nU, 300)
	}
	return kg
}

func preString(kg *KG, fn *ssa.Function, i int) string {
	pre := kg.pre[fn]
	if pre == nil || i >= len(pre) {
		return "⊤"
	}
	if pre[i] == vsAll {
		return "⊤"
	}
	return pre[i].String() + " (" + kg.preWhy[fn][i] + ")"
}

// checkCells: every cell function accepts the kinds of the cell it sits in.
func checkCells(c *Ctx, r *Report, kg *KG, rule string, tabs []*DispTable) {
	n := 0
	for _, t := range tabs {
		if len(t.Errs) > 0 {
			continue
		}
		nbad := 0
		for i := 0; i < K_DIM; i++ {
			for j := 0; j < K_DIM; j++ {
				if t.Dim == 1 && j > 0 {
					break
				}
				f := c.SSAFunc(t.Cell(i, j))
				if f == nil {
					continue
				}
				n++
				pre := kg.pre[f]
				if pre == nil {
					continue
				}
				if len(pre) > 0 && pre[0]&vsOfKind(i) == 0 {
					nbad++
					r.Fail(rule, cellKey(t, i, j)+" first operand", c.Rel(t.Pos), fmt.Sprintf("cell function %s requires its first operand to be %s but sits in the %s row: the typed access aborts whenever this cell is selected", t.Cell(i, j).Name(), preString(kg, f, 0), kindNames[i]))
				}
				if t.Dim == 2 && len(pre) > 1 && pre[1]&vsOfKind(j) == 0 {
					nbad++
					r.Fail(rule, cellKey(t, i, j)+" second operand", c.Rel(t.Pos), fmt.Sprintf("cell function %s requires its second operand to be %s but sits in the %s column: the typed access aborts whenever this cell is selected (e.g. a transposed _if/_fi kernel)", t.Cell(i, j).Name(), preString(kg, f, 1), kindNames[j]))
				}
			}
		}
		if nbad == 0 {
			r.OK(rule, "table "+t.Name, c.Rel(t.Pos), "every cell function accepts the kinds of its cell")
		}
	}
	r.Floor(rule, "table cells checked", n, 2000)
}

func runC18(c *Ctx, r *Report) {
	r.Explanation = "The clause 'every built-in function or operator applied to every combination of argument kinds … surfaces as error values rather than crashes' is decided for the crash classes that depend only on kinds or on zero: a flow analysis over the 12 kinds (plus 'type not yet inferred') proves every typed access (Acquire…Value, asserted kinds) guarded by a dominating kind test whose meaning is derived from the predicate bodies, or turns it into a precondition that every caller, every disposition-table cell and every registered built-in must satisfy for all kinds; integer divisions need a divisor proven non-zero; shifts an unsigned count; loops advanced by a computed step a non-zero step; make() lengths of the form x-c a guard x ≥ c; a failed read must end its read loop; exits only from the keep-list."
	r.NotDecided = "index and slice bounds on data-dependent indices (hand-written parsers, strptime), nil dereferences, recursion depth of user programs, lexer/grammar robustness, allocation size."
	if err := c.MTKinds(); err != nil {
		r.Undecided("R18.0", "MT kinds", "", err.Error())
		return
	}
	r.Rule("R18.1", "typed access is kind-guarded: every Acquire…Value / kind assertion is excluded by facts at the site or becomes a precondition established by every caller; every disposition cell accepts its index kinds; every function registered in the built-in table accepts all kinds (incl. not-yet-inferred values) in every argument position")
	kg := runKindGuard(c, r, "R18.1", nil)
	var tabs []*DispTable
	for _, t := range kg.rs.tables {
		tabs = append(tabs, t)
	}
	sort.Slice(tabs, func(i, j int) bool { return tabs[i].Name < tabs[j].Name })
	checkCells(c, r, kg, "R18.1", tabs)
	// registry entry points
	reg, msg := c.BIFRegistry()
	if msg != "" {
		r.Undecided("R18.1", "registry", "", msg)
	} else {
		ne := 0
		for _, e := range reg {
			var fields []string
			for k := range e.Funcs {
				fields = append(fields, k)
			}
			sort.Strings(fields)
			for _, k := range fields {
				f := c.SSAFunc(e.Funcs[k])
				if f == nil {
					continue
				}
				ne++
				pre := kg.pre[f]
				for i := range pre {
					if i < len(f.Params) && isMlrvalPtr(f.Params[i].Type()) && pre[i] != vsAll {
						r.Fail("R18.1", fmt.Sprintf("function %s argument %d", e.Name, i+1), c.Rel(e.Pos),
							fmt.Sprintf("built-in %s (%s) requires argument %d to be %s, but the interpreter passes any kind: calling it with %s aborts the process instead of returning an error value", e.Name, e.Funcs[k].Name(), i+1, preString(kg, f, i), (vsAll&^pre[i]).String()))
					}
				}
			}
		}
		r.OK("R18.1", "registered built-ins accept every kind", "pkg/dsl/cst/builtin_function_manager.go", fmt.Sprintf("%d registered implementations examined", ne))
		r.Floor("R18.1", "registered implementations", ne, 200)
	}
	r.Extra["kindguard_functions_bailed"] = len(kg.bailed)

	r.Rule("R18.2", "integer division and shifts cannot panic: every integer / and % has a divisor that is a non-zero constant, excluded from zero by a dominating test, or a field/parameter all of whose stores/arguments are proven non-zero; every shift by a non-constant count has an unsigned count")
	checkIntDivision(c, r, "R18.2")
	checkShifts(c, r, "R18.2")

	r.Rule("R18.3", "explicit aborts: os.Exit only from the keep-list (R17.7); no recover()")
	checkExitSites(c, r, "R18.3", false)

	c18LookAhead(c, r)
	c18SliceBounds(c, r)
	c18ArgCursor(c, r)
	c18NilMapWrites(c, r)
	c18TrimBothEnds(c, r)
	c18BoundTests(c, r)
	c18HeaderDataMismatch(c, r)
	c18InrecNil(c, r)
	c18ASTChildren(c, r)
	c18NoAssertOnText(c, r)
	c18LineReaderSeparator(c, r)
	c18FloatIndex(c, r)
	c18BoundedRecursion(c, r)
	c18ClampBelowLength(c, r)
	c18MapGetNil(c, r)
	r.Rule("R18.7", "a failed read ends the read loop (= R17.12): no path on which a reader's low-level read returned a non-nil, unclassified error leads back to the same read")
	sub := NewReport("tmp", r.Tier)
	c17ReadErrors(c, sub)
	for _, o := range sub.Obls {
		if o.Rule == "R17.12" {
			o.Rule = "R18.7"
			r.add(o)
		}
	}

	r.Rule("R18.8", "loops make progress: a loop in the built-in functions, library helpers, readers, writers and scanners whose only exit depends on a variable advanced by a computed step has a step proven non-zero")
	checkLoopProgress(c, r, "R18.8", []string{"pkg/bifs", "pkg/lib", "pkg/mlrval", "pkg/input", "pkg/output", "pkg/scan", "pkg/dkvpx", "pkg/go-csv"})

	r.Rule("R18.9", "slice lengths cannot go negative: every make([]T, x-c) with constant c > 0 is dominated by a test that x ≥ c")
	checkMakeSliceLen(c, r, "R18.9")
}
