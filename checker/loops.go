package main

import "golang.org/x/tools/go/ssa"

// natLoop is a natural loop: the header, the blocks, and the latches (sources
// of the back edges).
type natLoop struct {
	Header  *ssa.BasicBlock
	Blocks  map[*ssa.BasicBlock]bool
	Latches []*ssa.BasicBlock
}

// naturalLoops returns the natural loops of fn, one per header.
func naturalLoops(fn *ssa.Function) []*natLoop {
	var out []*natLoop
	for _, h := range fn.Blocks {
		var latches []*ssa.BasicBlock
		for _, p := range h.Preds {
			if h.Dominates(p) {
				latches = append(latches, p)
			}
		}
		if len(latches) == 0 {
			continue
		}
		l := &natLoop{Header: h, Blocks: map[*ssa.BasicBlock]bool{h: true}, Latches: latches}
		var work []*ssa.BasicBlock
		for _, p := range latches {
			if !l.Blocks[p] {
				l.Blocks[p] = true
				work = append(work, p)
			}
		}
		for len(work) > 0 {
			b := work[len(work)-1]
			work = work[:len(work)-1]
			for _, p := range b.Preds {
				if !l.Blocks[p] {
					l.Blocks[p] = true
					work = append(work, p)
				}
			}
		}
		out = append(out, l)
	}
	return out
}

// innermostLoop: the smallest natural loop containing b, or nil.
func innermostLoop(loops []*natLoop, b *ssa.BasicBlock) *natLoop {
	var best *natLoop
	for _, l := range loops {
		if l.Blocks[b] && (best == nil || len(l.Blocks) < len(best.Blocks)) {
			best = l
		}
	}
	return best
}

// everyTurn: block b is executed on every turn of loop l that comes back to
// the header (b dominates every latch).
func (l *natLoop) everyTurn(b *ssa.BasicBlock) bool {
	for _, p := range l.Latches {
		if !b.Dominates(p) {
			return false
		}
	}
	return true
}
