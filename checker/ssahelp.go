package main

// Small SSA helpers shared by the rules: guards (dominating branch
// conditions), callee naming, call-site enumeration, reachability.

import (
	"go/constant"
	"go/token"
	"go/types"
	"strings"

	"golang.org/x/tools/go/callgraph"
	"golang.org/x/tools/go/ssa"
)

// A Guard says: control reached this block only through the edge on which
// Cond evaluated to Polarity.
type Guard struct {
	Cond     ssa.Value
	Polarity bool
	Block    *ssa.BasicBlock // the block ending in the If
}

// stripNot normalises !x.
func stripNot(v ssa.Value, pol bool) (ssa.Value, bool) {
	for {
		u, ok := v.(*ssa.UnOp)
		if !ok || u.Op != token.NOT {
			return v, pol
		}
		v = u.X
		pol = !pol
	}
}

// GuardsAt returns the branch conditions that dominate block b.
func GuardsAt(b *ssa.BasicBlock) []Guard {
	var out []Guard
	for cur := b; cur != nil; {
		d := cur.Idom()
		if d == nil {
			break
		}
		if iff, ok := d.Instrs[len(d.Instrs)-1].(*ssa.If); ok && len(d.Succs) == 2 && d.Succs[0] != d.Succs[1] {
			for k, pol := range []bool{true, false} {
				s := d.Succs[k]
				if len(s.Preds) == 1 && s.Dominates(b) {
					cond, p := stripNot(iff.Cond, pol)
					out = append(out, Guard{Cond: cond, Polarity: p, Block: d})
				}
			}
		}
		cur = d
	}
	return out
}

// CalleeName returns the qualified name of the static callee of a call value
// ("pkg/mlrval.Mlrval.IsAbsent"), or "".
func CalleeName(com *ssa.CallCommon) string {
	callee := com.StaticCallee()
	if callee == nil {
		if com.IsInvoke() {
			return "invoke:" + com.Method.Name()
		}
		return ""
	}
	return SSAFuncName(callee)
}

func SSAFuncName(f *ssa.Function) string {
	if f == nil {
		return ""
	}
	if o, ok := f.Object().(*types.Func); ok && o != nil {
		if o.Pkg() != nil && strings.HasPrefix(o.Pkg().Path(), modPath) {
			return FuncName(o)
		}
		// stdlib / third party: pkgpath.Name or pkgpath.T.M
		sig := o.Type().(*types.Signature)
		if r := sig.Recv(); r != nil {
			t := r.Type()
			if pt, ok := t.(*types.Pointer); ok {
				t = pt.Elem()
			}
			if n, ok := t.(*types.Named); ok {
				return o.Pkg().Path() + "." + n.Obj().Name() + "." + o.Name()
			}
		}
		if o.Pkg() != nil {
			return o.Pkg().Path() + "." + o.Name()
		}
		return o.Name()
	}
	return SSAName(f)
}

// IsPredCall: v is a call of the method/function named name with first
// argument (receiver) arg. Returns true if so.
func IsPredCall(v ssa.Value, name string, arg ssa.Value) bool {
	call, ok := v.(*ssa.Call)
	if !ok {
		return false
	}
	if CalleeName(&call.Call) != name {
		return false
	}
	return len(call.Call.Args) > 0 && sameValue(call.Call.Args[0], arg)
}

// sameValue: identical SSA value, or two loads of the same address with no
// CSE (conservative: same Alloc/FieldAddr chain of identical operands).
func sameValue(a, b ssa.Value) bool {
	if a == b {
		return true
	}
	// two calls of the same pure typed accessor on the same value
	if ca, ok := a.(*ssa.Call); ok {
		if cb, ok := b.(*ssa.Call); ok {
			fa, fb := ca.Call.StaticCallee(), cb.Call.StaticCallee()
			if fa != nil && fa == fb && len(ca.Call.Args) == 1 && len(cb.Call.Args) == 1 {
				n := SSAFuncName(fa)
				if strings.HasPrefix(n, "pkg/mlrval.Mlrval.Acquire") {
					return sameValue(ca.Call.Args[0], cb.Call.Args[0])
				}
			}
		}
	}
	ua, ok1 := a.(*ssa.UnOp)
	ub, ok2 := b.(*ssa.UnOp)
	if ok1 && ok2 && ua.Op == token.MUL && ub.Op == token.MUL {
		return sameAddr(ua.X, ub.X)
	}
	return false
}

func sameAddr(a, b ssa.Value) bool {
	if a == b {
		return true
	}
	switch x := a.(type) {
	case *ssa.FieldAddr:
		y, ok := b.(*ssa.FieldAddr)
		return ok && x.Field == y.Field && (x.X == y.X || sameValue(x.X, y.X))
	case *ssa.IndexAddr:
		y, ok := b.(*ssa.IndexAddr)
		if !ok {
			return false
		}
		if !(x.X == y.X || sameValue(x.X, y.X)) {
			return false
		}
		cx, ok1 := x.Index.(*ssa.Const)
		cy, ok2 := y.Index.(*ssa.Const)
		if ok1 && ok2 {
			return constant.Compare(cx.Value, token.EQL, cy.Value)
		}
		return x.Index == y.Index
	}
	return false
}

// ForEachCall visits every call instruction (call, go, defer) of fn,
// including anonymous functions when deep is set.
func ForEachCall(fn *ssa.Function, deep bool, f func(site ssa.CallInstruction, in *ssa.Function)) {
	if fn == nil || fn.Blocks == nil {
		return
	}
	for _, b := range fn.Blocks {
		for _, in := range b.Instrs {
			if ci, ok := in.(ssa.CallInstruction); ok {
				f(ci, fn)
			}
		}
	}
	if deep {
		for _, an := range fn.AnonFuncs {
			ForEachCall(an, deep, f)
		}
	}
}

// ModuleFunctions returns all SSA functions of the Miller module that have
// bodies, including anonymous functions and instantiations.
func (c *Ctx) ModuleFunctions() []*ssa.Function {
	var out []*ssa.Function
	for f := range c.AllFunctions() {
		if f.Blocks != nil && IsModuleFunc(f) {
			out = append(out, f)
		}
	}
	sortFuncs(out)
	return out
}

func sortFuncs(fs []*ssa.Function) {
	// deterministic order: by position then name
	lessf := func(a, b *ssa.Function) bool {
		if a.Pos() != b.Pos() {
			return a.Pos() < b.Pos()
		}
		return a.String() < b.String()
	}
	// simple insertion-free sort
	for i := 1; i < len(fs); i++ {
		for j := i; j > 0 && lessf(fs[j], fs[j-1]); j-- {
			fs[j], fs[j-1] = fs[j-1], fs[j]
		}
	}
}

// Reachable computes the set of functions reachable from roots in cg.
func Reachable(cg *callgraph.Graph, roots []*ssa.Function, stop func(*ssa.Function) bool) map[*ssa.Function]*callgraph.Edge {
	// value = edge through which first reached (nil for roots)
	seen := map[*ssa.Function]*callgraph.Edge{}
	var work []*ssa.Function
	for _, r := range roots {
		if r == nil {
			continue
		}
		if _, ok := seen[r]; !ok {
			seen[r] = nil
			work = append(work, r)
		}
	}
	for len(work) > 0 {
		f := work[0]
		work = work[1:]
		n := cg.Nodes[f]
		if n == nil {
			continue
		}
		if stop != nil && stop(f) {
			continue
		}
		for _, e := range n.Out {
			g := e.Callee.Func
			if _, ok := seen[g]; ok {
				continue
			}
			seen[g] = e
			work = append(work, g)
		}
	}
	return seen
}

// PathTo renders the call path from a root to f using the reach map.
func PathTo(reach map[*ssa.Function]*callgraph.Edge, f *ssa.Function) string {
	var parts []string
	for cur := f; cur != nil; {
		parts = append([]string{SSAName(cur)}, parts...)
		e := reach[cur]
		if e == nil {
			break
		}
		cur = e.Caller.Func
		if len(parts) > 12 {
			parts = append([]string{"…"}, parts...)
			break
		}
	}
	return strings.Join(parts, " → ")
}

// ConstBool / ConstInt helpers
func constBool(v ssa.Value) (bool, bool) {
	k, ok := v.(*ssa.Const)
	if !ok || k.Value == nil || k.Value.Kind() != constant.Bool {
		return false, false
	}
	return constant.BoolVal(k.Value), true
}

func constInt(v ssa.Value) (int64, bool) {
	k, ok := v.(*ssa.Const)
	if !ok || k.Value == nil {
		return 0, false
	}
	if k.Value.Kind() != constant.Int {
		return 0, false
	}
	return constant.Int64Val(k.Value)
}

func constString(v ssa.Value) (string, bool) {
	k, ok := v.(*ssa.Const)
	if !ok || k.Value == nil || k.Value.Kind() != constant.String {
		return "", false
	}
	return constant.StringVal(k.Value), true
}

// Implementers returns the named (pointer) types of the module implementing
// the interface.
func (c *Ctx) Implementers(iface *types.Interface) []*types.Named {
	var out []*types.Named
	for _, p := range c.Pkgs {
		sc := p.Types.Scope()
		for _, n := range sc.Names() {
			tn, ok := sc.Lookup(n).(*types.TypeName)
			if !ok || tn.IsAlias() {
				continue
			}
			named, ok := tn.Type().(*types.Named)
			if !ok {
				continue
			}
			if _, isIface := named.Underlying().(*types.Interface); isIface {
				continue
			}
			if types.Implements(named, iface) || types.Implements(types.NewPointer(named), iface) {
				out = append(out, named)
			}
		}
	}
	return out
}

func (c *Ctx) LookupInterface(pkgRel, name string) *types.Interface {
	p := c.Pkg(pkgRel)
	if p == nil {
		return nil
	}
	tn, ok := p.Types.Scope().Lookup(name).(*types.TypeName)
	if !ok {
		return nil
	}
	i, _ := tn.Type().Underlying().(*types.Interface)
	return i
}

func MethodOf(named *types.Named, name string) *types.Func {
	for i := 0; i < named.NumMethods(); i++ {
		if named.Method(i).Name() == name {
			return named.Method(i)
		}
	}
	return nil
}
