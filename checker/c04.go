package main

// C04 — output independent of batching/scheduling; every run terminates:
// protocol obligations as path, pairing and shared-state rules.

import (
	"os"
	"fmt"
	"go/ast"
	"go/token"
	"go/types"
	"sort"
	"strings"

	"golang.org/x/tools/go/ssa"
)

func init() { register("C04", true, runC04) }

func runC04(c *Ctx, r *Report) {
	r.Explanation = "Termination and schedule-independence rest on protocol obligations that are visible on every CFG path: each verb forwards the end-of-stream marker; each reader ends its stream with exactly one marker after all records; each channelized scanner sends its pending batch and closes its channel exactly once; every send on a capacity-1 back-channel is non-blocking; only the writer goroutine writes stdout; the per-record flush follows every write; package-level state written from pipeline goroutines is locked; randomness has one seeded owner; built-in map iteration order never reaches output; copy-in/copy-out of reader state across batches is complete."
	r.NotDecided = "byte equality of outputs across batch sizes (needs execution); timing of tail -f output; fairness of the Go scheduler."
	runR041(c, r)
	c04Readers(c, r)
	c04Scanners(c, r)
	c04BackChannel(c, r)
	c04Stdout(c, r)
	c04Flush(c, r)
	c04Shared(c, r)
	c04Rand(c, r)
	c04MapOrder(c, r)
	c04StateShadow(c, r)
	c04HandleOwnership(c, r)
	c04DoneEndsLoop(c, r)
	c04SubsliceIndex(c, r)
	c04DropSignalsDone(c, r)
	c04SentSliceGivenAway(c, r)
}

// ---- R04.2 -------------------------------------------------------------------
func c04Readers(c *Ctx, r *Report) {
	r.Rule("R04.2", "every IRecordReader.Read ends, on every path, with a send of NewEndOfStreamMarkerList on the reader channel, and nothing is sent on that channel afterwards")
	iface := c.LookupInterface("pkg/input", "IRecordReader")
	if iface == nil {
		r.Undecided("R04.2", "IRecordReader", "", "interface not found")
		return
	}
	n := 0
	for _, named := range c.Implementers(iface) {
		m := MethodOf(named, "Read")
		fn := c.SSAFunc(m)
		if fn == nil || fn.Blocks == nil {
			continue
		}
		n++
		ch := paramOfType(fn, chanElemIsRecordBatch, types.SendOnly, 0)
		key := named.Obj().Name() + ".Read"
		if ch == nil {
			r.Undecided("R04.2", key, c.Rel(fn.Pos()), "no reader channel parameter")
			continue
		}
		bad := ""
		pr := &PathRule{Fn: fn}
		pr.Transfer = func(f Facts, in ssa.Instruction, deferred bool) []Facts {
			switch x := in.(type) {
			case *ssa.Send:
				if !sameChan(x.Chan, ch) {
					return nil
				}
				isMarker := false
				if call, ok := x.X.(*ssa.Call); ok && CalleeName(&call.Call) == "pkg/types.NewEndOfStreamMarkerList" {
					isMarker = true
				}
				if f.Has("eos") {
					bad = c.Rel(x.Pos()) + ": a send on the reader channel follows the end-of-stream marker"
				}
				if isMarker {
					return []Facts{f.With("eos")}
				}
			case *ssa.Call:
				if f.Has("eos") {
					for _, a := range x.Call.Args {
						if sameChan(a, ch) {
							bad = c.Rel(x.Pos()) + ": the reader channel is handed to " + CalleeName(&x.Call) + " after the end-of-stream marker was sent"
						}
					}
				}
			}
			return nil
		}
		pr.AtReturn = func(f Facts, ret *ssa.Return) {
			if !f.Has("eos") {
				bad = c.Rel(ret.Pos()) + ": a path returns without sending the end-of-stream marker: the chain and the writer wait forever"
			}
		}
		pr.Run()
		r.Check(bad == "", "R04.2", key, c.Rel(fn.Pos()), "marker sent last on every path", bad)
	}
	r.Floor("R04.2", "record readers", n, 12)
}

// ---- R04.3 -------------------------------------------------------------------
func c04Scanners(c *Ctx, r *Report) {
	r.Rule("R04.3", "every channelized scanner goroutine sends its pending (last partial) batch and then closes its channel exactly once on every path; nothing is sent after close")
	p := c.Pkg("pkg/input")
	n := 0
	for _, fobj := range c.FuncsOfPkg(p) {
		if !strings.HasPrefix(fobj.Name(), "channelized") {
			continue
		}
		fn := c.SSAFunc(fobj)
		// the batch channel: first send-only chan param that is not error/bool
		var ch *ssa.Parameter
		for _, prm := range fn.Params {
			if cht, ok := prm.Type().Underlying().(*types.Chan); ok && !chanElemIsError(prm.Type()) && !chanElemIsBool(prm.Type()) && cht.Dir() != types.RecvOnly {
				ch = prm
				break
			}
		}
		key := fobj.Name()
		if ch == nil {
			r.Undecided("R04.3", key, c.Rel(fn.Pos()), "no batch channel parameter")
			continue
		}
		n++
		bad := ""
		pr := &PathRule{Fn: fn}
		pr.Transfer = func(f Facts, in ssa.Instruction, deferred bool) []Facts {
			switch x := in.(type) {
			case *ssa.Send:
				if sameChan(x.Chan, ch) {
					if f.Has("closed") {
						bad = c.Rel(x.Pos()) + ": send after close (panics)"
					}
					return []Facts{f.With("sentlast")}
				}
			case *ssa.Call:
				if bi, ok := x.Call.Value.(*ssa.Builtin); ok && bi.Name() == "close" && sameChan(x.Call.Args[0], ch) {
					if f.Has("closed") {
						bad = c.Rel(x.Pos()) + ": channel closed twice on one path (panics)"
					}
					if !f.Has("sentlast") {
						bad = c.Rel(x.Pos()) + ": the channel is closed without sending the pending batch first: the last partial batch of the input is lost"
					}
					return []Facts{f.With("closed")}
				}
				// anything that may add to the pending batch invalidates "sentlast"
				if bi, ok := x.Call.Value.(*ssa.Builtin); ok && bi.Name() == "append" {
					return []Facts{f.Without("sentlast")}
				}
			}
			return nil
		}
		pr.AtReturn = func(f Facts, ret *ssa.Return) {
			if !f.Has("closed") {
				bad = c.Rel(ret.Pos()) + ": the goroutine returns without closing its channel: the consumer blocks forever"
			}
		}
		pr.Run()
		r.Check(bad == "", "R04.3", key, c.Rel(fn.Pos()), "pending batch sent, then closed exactly once, on every path", bad)
	}
	r.Floor("R04.3", "channelized scanners", n, 4)
}

// ---- R04.4 -------------------------------------------------------------------
func c04BackChannel(c *Ctx, r *Report) {
	r.Rule("R04.4", "no blocking send on a bounded back-channel: every send on a downstream-done (bool) channel in the verbs, the chain runner and the generators is a select case with a default; only the writer's done-writing signal (one sender, one send) may be a plain send")
	n := 0
	var keys []string
	res := map[string][2]string{}
	for _, fn := range c.ModuleFunctions() {
		top := enclosingNamed(fn)
		pk := ""
		if top.Pkg != nil {
			pk = top.Pkg.Pkg.Path()
		}
		if subEntrypointPkg(pk) {
			continue
		}
		idx := 0
		for _, b := range fn.Blocks {
			for _, in := range b.Instrs {
				switch x := in.(type) {
				case *ssa.Send:
					if !chanElemIsBool(x.Chan.Type()) {
						continue
					}
					n++
					idx++
					key := fmt.Sprintf("%s: bool-channel send #%d", SSAName(fn), idx)
					keys = append(keys, key)
					if SSAName(top) == "pkg/output.ChannelWriter" {
						res[key] = [2]string{c.Rel(x.Pos()), "ok:done-writing signal of the single writer goroutine (one send per goroutine, capacity 1)"}
					} else {
						res[key] = [2]string{c.Rel(x.Pos()), "plain (blocking) send on a capacity-1 done channel: if the receiver has stopped listening or the slot is taken (two verbs signalling, e.g. head then head) the goroutine blocks forever and the run hangs"}
					}
				case *ssa.Select:
					for _, st := range x.States {
						if st.Dir == types.SendOnly && chanElemIsBool(st.Chan.Type()) {
							n++
							idx++
							key := fmt.Sprintf("%s: bool-channel send #%d", SSAName(fn), idx)
							keys = append(keys, key)
							if x.Blocking {
								res[key] = [2]string{c.Rel(x.Pos()), "send in a select without default: blocks when the slot is taken"}
							} else {
								res[key] = [2]string{c.Rel(x.Pos()), "ok:select with default"}
							}
						}
					}
				}
			}
		}
	}
	sort.Strings(keys)
	for _, k := range keys {
		v := res[k]
		if strings.HasPrefix(v[1], "ok:") {
			r.OK("R04.4", k, v[0], strings.TrimPrefix(v[1], "ok:"))
		} else {
			r.Fail("R04.4", k, v[0], v[1])
		}
	}
	r.Floor("R04.4", "sends on bool channels", n, 4)
}

// ---- R04.5 -------------------------------------------------------------------
// stdoutOK: enclosing functions allowed to write os.Stdout from inside the pipeline.
var stdoutOK = map[string]string{
	"pkg/output.newStdoutOutputHandler": "documented redirect target '> stdout'",
}

func pipelineRoots(c *Ctx) []*ssa.Function {
	var roots []*ssa.Function
	if iface := c.LookupInterface("pkg/input", "IRecordReader"); iface != nil {
		for _, named := range c.Implementers(iface) {
			if f := c.SSAFunc(MethodOf(named, "Read")); f != nil {
				roots = append(roots, f)
			}
		}
	}
	for _, n := range [][2]string{{"pkg/transformers", "ChainTransformer"}, {"pkg/transformers", "runSingleTransformer"}} {
		if f := c.SSAFunc(c.LookupFunc(n[0], n[1])); f != nil {
			roots = append(roots, f)
		}
	}
	return roots
}

func c04Stdout(c *Ctx, r *Report) {
	r.Rule("R04.5", "stdout has one writer: no function reachable from the reader or verb goroutines writes os.Stdout directly (fmt.Print*, fmt.Fprint*(os.Stdout), os.Stdout.Write*); the DSL output statements print directly only under state.OutputRecordsAndContexts == nil (the REPL), help/usage printers are unreachable once streaming started")
	roots := pipelineRoots(c)
	if len(roots) < 10 {
		r.Undecided("R04.5", "pipeline roots", "", fmt.Sprintf("only %d goroutine roots found", len(roots)))
		return
	}
	reach := Reachable(c.VTA(), roots, nil)
	type hit struct{ key, pos, why string }
	var hits []hit
	nsites := 0
	var fns []*ssa.Function
	for f := range reach {
		if IsModuleFunc(f) && f.Blocks != nil {
			fns = append(fns, f)
		}
	}
	sortFuncs(fns)
	for _, fn := range fns {
		top := enclosingNamed(fn)
		pk := ""
		if top.Pkg != nil {
			pk = top.Pkg.Pkg.Path()
		}
		if subEntrypointPkg(pk) {
			continue
		}
		cnt := 0
		for _, b := range fn.Blocks {
			for _, in := range b.Instrs {
				ci, ok := in.(ssa.CallInstruction)
				if !ok || !callWritesStdout(ci.Common()) {
					continue
				}
				nsites++
				cnt++
				key := fmt.Sprintf("%s writes stdout #%d", SSAName(fn), cnt)
				if why, ok := stdoutOK[SSAName(top)]; ok {
					hits = append(hits, hit{key, c.Rel(in.Pos()), "ok:" + why})
					continue
				}
				// guarded by OutputRecordsAndContexts == nil ?
				if guardedByNilOutputList(in.Block()) {
					hits = append(hits, hit{key, c.Rel(in.Pos()), "ok:only when state.OutputRecordsAndContexts == nil (REPL; the put/filter verb sets it before executing)"})
					continue
				}
				if sw := guardedByDebugSwitch(in.Block()); sw != "" {
					hits = append(hits, hit{key, c.Rel(in.Pos()), "ok:debug trace under package-level switch " + sw + " that is only set in package initialisation (from an environment variable)"})
					continue
				}
				if isUsageOrHelp(top) {
					hits = append(hits, hit{key, c.Rel(in.Pos()), "ok:usage/help printer (runs at parse time; reachability from the pipeline is an over-approximation of the call graph through function-typed fields)"})
					continue
				}
				hits = append(hits, hit{key, c.Rel(in.Pos()), "writes os.Stdout from a reader/verb goroutine, unsynchronised with the writer goroutine: the text's position in the output depends on scheduling and buffering; path: " + PathTo(reach, fn)})
			}
		}
	}
	for _, h := range hits {
		if strings.HasPrefix(h.why, "ok:") {
			r.OK("R04.5", h.key, h.pos, strings.TrimPrefix(h.why, "ok:"))
		} else {
			r.Fail("R04.5", h.key, h.pos, h.why)
		}
	}
	r.OK("R04.5", "functions reachable from pipeline roots", "", fmt.Sprintf("%d functions scanned, %d stdout call sites", len(fns), nsites))
	r.Floor("R04.5", "functions reachable from pipeline roots", len(fns), 1500)
}

func guardedByNilOutputList(b *ssa.BasicBlock) bool {
	for _, g := range GuardsAt(b) {
		bo, ok := g.Cond.(*ssa.BinOp)
		if !ok || (bo.Op != token.EQL && bo.Op != token.NEQ) {
			continue
		}
		k, isK := bo.Y.(*ssa.Const)
		if !isK || !k.IsNil() {
			continue
		}
		if u, ok := bo.X.(*ssa.UnOp); ok && u.Op == token.MUL {
			if fa, ok := u.X.(*ssa.FieldAddr); ok {
				st := fa.X.Type().Underlying().(*types.Pointer).Elem().Underlying().(*types.Struct)
				if st.Field(fa.Field).Name() == "OutputRecordsAndContexts" && (bo.Op == token.EQL) == g.Polarity {
					return true
				}
			}
		}
	}
	return false
}

// guardedByDebugSwitch: the block is dominated by the true edge of a load of
// a package-level bool of the module that has no store outside package init.
func guardedByDebugSwitch(b *ssa.BasicBlock) string {
	for _, g := range GuardsAt(b) {
		u, ok := g.Cond.(*ssa.UnOp)
		if !ok || u.Op != token.MUL || !g.Polarity {
			continue
		}
		gl, ok := u.X.(*ssa.Global)
		if !ok || gl.Pkg == nil || !strings.HasPrefix(gl.Pkg.Pkg.Path(), modPath) {
			continue
		}
		if bt, ok := gl.Type().(*types.Pointer).Elem().Underlying().(*types.Basic); !ok || bt.Kind() != types.Bool {
			continue
		}
		onlyInit := true
		for _, m := range gl.Pkg.Members {
			f, ok := m.(*ssa.Function)
			if !ok {
				continue
			}
			var scan func(f *ssa.Function)
			scan = func(f *ssa.Function) {
				for _, bb := range f.Blocks {
					for _, in := range bb.Instrs {
						if st, ok := in.(*ssa.Store); ok && st.Addr == gl && f.Name() != "init" {
							onlyInit = false
						}
					}
				}
				for _, an := range f.AnonFuncs {
					scan(an)
				}
			}
			scan(f)
		}
		if onlyInit {
			return gl.Name()
		}
	}
	return ""
}

func isUsageOrHelp(top *ssa.Function) bool {
	n := top.Name()
	ln := strings.ToLower(n)
	if strings.Contains(ln, "usage") || strings.Contains(ln, "help") || strings.HasPrefix(ln, "list") || strings.HasPrefix(ln, "show") || strings.HasPrefix(ln, "print") && top.Pkg != nil && strings.HasSuffix(top.Pkg.Pkg.Path(), "/pkg/cli") {
		return true
	}
	// any function taking an *os.File "ostream" parameter prints where told
	return false
}

// ---- R04.6 -------------------------------------------------------------------
func c04Flush(c *Ctx, r *Report) {
	r.Rule("R04.6", "flush-per-record path: in channelWriterHandleBatch, whenever FlushOnEveryRecord is set, every write of a record or of an output string is followed by Flush() before the next list element is handled and before a non-error return")
	fn := c.SSAFunc(c.LookupFunc("pkg/output", "channelWriterHandleBatch"))
	if fn == nil {
		r.Undecided("R04.6", "channelWriterHandleBatch", "", "anchor not found")
		return
	}
	isFlushOpt := func(v ssa.Value) bool {
		u, ok := v.(*ssa.UnOp)
		if !ok || u.Op != token.MUL {
			return false
		}
		fa, ok := u.X.(*ssa.FieldAddr)
		if !ok {
			return false
		}
		st := fa.X.Type().Underlying().(*types.Pointer).Elem().Underlying().(*types.Struct)
		return st.Field(fa.Field).Name() == "FlushOnEveryRecord"
	}
	isHeader := func(b *ssa.BasicBlock) bool {
		for _, p := range b.Preds {
			if b.Dominates(p) {
				return true
			}
		}
		return false
	}
	bad := ""
	nw := 0
	pr := &PathRule{Fn: fn}
	pr.Branch = func(f Facts, cond ssa.Value, pol bool, iff *ssa.If) (Facts, bool) {
		if isFlushOpt(cond) {
			return nil, pol // analyse with the option set
		}
		return nil, true
	}
	pr.Transfer = func(f Facts, in ssa.Instruction, deferred bool) []Facts {
		if in == in.Block().Instrs[0] && isHeader(in.Block()) && f.Has("dirty") {
			bad = "a record or output string written at " + firstFact(f, "dirty@") + " is not flushed before the next element is handled"
			return []Facts{f.Without("dirty")}
		}
		call, ok := in.(*ssa.Call)
		if !ok {
			return nil
		}
		com := &call.Call
		name := CalleeName(com)
		switch {
		case com.IsInvoke() && com.Method.Name() == "Write":
			// record writer; the end-of-stream call (nil record) also may emit text
			nw++
			return []Facts{f.With("dirty", "dirty@"+c.Rel(in.Pos()))}
		case name == "bufio.Writer.WriteString" || name == "bufio.Writer.Write":
			nw++
			return []Facts{f.With("dirty", "dirty@"+c.Rel(in.Pos()))}
		case name == "bufio.Writer.Flush":
			g := f.Without("dirty")
			for k := range g {
				if strings.HasPrefix(k, "dirty@") {
					delete(g, k)
				}
			}
			return []Facts{g}
		}
		return nil
	}
	pr.AtReturn = func(f Facts, ret *ssa.Return) {
		if !f.Has("dirty") {
			return
		}
		// returns with errored=true or at end of stream (done=true) are followed by the final flush of the stream
		if len(ret.Results) == 2 {
			if d, ok := constBool(ret.Results[0]); ok && d {
				return
			}
		}
		bad = "a record or output string written at " + firstFact(f, "dirty@") + " is not flushed before the batch handler returns (done=false)"
	}
	pr.Run()
	r.Check(bad == "" && nw >= 2, "R04.6", "channelWriterHandleBatch: flush after every write", c.Rel(fn.Pos()), "every write is followed by Flush() under FlushOnEveryRecord",
		"with --fflush / --records-per-batch 1 (or stdout a terminal) "+bad+": output for a record can stay buffered until later input arrives (tail -f contract)")
	// FinalizeWriterOptions sets FlushOnEveryRecord
	fw := c.SSAFunc(c.LookupFunc("pkg/cli", "FinalizeWriterOptions"))
	if fw == nil {
		r.Undecided("R04.6", "FinalizeWriterOptions", "", "anchor not found")
		return
	}
	stores := false
	ForEachCall(fw, false, func(site ssa.CallInstruction, in *ssa.Function) {})
	for _, b := range fw.Blocks {
		for _, in := range b.Instrs {
			if st, ok := in.(*ssa.Store); ok {
				if fa, ok := st.Addr.(*ssa.FieldAddr); ok {
					stt := fa.X.Type().Underlying().(*types.Pointer).Elem().Underlying().(*types.Struct)
					if stt.Field(fa.Field).Name() == "FlushOnEveryRecord" {
						stores = true
					}
				}
			}
		}
	}
	r.Check(stores, "R04.6", "FinalizeWriterOptions sets FlushOnEveryRecord", c.Rel(fw.Pos()), "store found", "FinalizeWriterOptions no longer decides FlushOnEveryRecord")
}

func firstFact(f Facts, prefix string) string {
	for k := range f {
		if strings.HasPrefix(k, prefix) {
			return strings.TrimPrefix(k, prefix)
		}
	}
	return "?"
}

// ---- R04.7 -------------------------------------------------------------------
// sharedOK: package-level variables written at pipeline time that are
// legitimately unsynchronised, with reason.
var sharedOK = map[string]string{}

// nonThreadSafeGlobalTypes: library types whose methods mutate internal
// state; a global of such a type reached from two goroutines is shared state.
var nonThreadSafeGlobalTypes = map[string]bool{"*math/rand.Rand": true, "math/rand.Source": true}

func c04Shared(c *Ctx, r *Report) {
	r.Rule("R04.7", "package-level state written by code reachable from a pipeline goroutine (a chain of two verbs runs two such goroutines) is written only inside a mutex region, or is a sync/atomic type; variables written only at option-parse/init time are exempt")
	roots := pipelineRoots(c)
	reach := Reachable(c.VTA(), roots, nil)
	type wsite struct {
		fn     *ssa.Function
		in     ssa.Instruction
		how    string
		locked bool
	}
	writes := map[*ssa.Global][]wsite{}
	baseGlobal := func(v ssa.Value) *ssa.Global {
		for i := 0; i < 6; i++ {
			switch x := v.(type) {
			case *ssa.Global:
				return x
			case *ssa.FieldAddr:
				v = x.X
			case *ssa.IndexAddr:
				v = x.X
			case *ssa.UnOp:
				if x.Op != token.MUL {
					return nil
				}
				v = x.X
			default:
				return nil
			}
		}
		return nil
	}
	for _, fn := range c.ModuleFunctions() {
		top := enclosingNamed(fn)
		if top.Name() == "init" || strings.HasPrefix(top.Name(), "init#") {
			continue
		}
		for _, b := range fn.Blocks {
			for _, in := range b.Instrs {
				var g *ssa.Global
				how := ""
				switch x := in.(type) {
				case *ssa.Store:
					g = baseGlobal(x.Addr)
					how = "store"
				case *ssa.MapUpdate:
					g = baseGlobal(x.Map)
					how = "map update"
				case *ssa.Call:
					// method call on a non-thread-safe library object loaded from a global
					if cal := x.Call.StaticCallee(); cal != nil && !IsModuleFunc(cal) && len(x.Call.Args) > 0 && cal.Signature.Recv() != nil {
						if gg := baseGlobal(x.Call.Args[0]); gg != nil {
							ts := gg.Type().(*types.Pointer).Elem().String()
							if nonThreadSafeGlobalTypes[ts] {
								g = gg
								how = "call of " + SSAFuncName(cal) + " (mutates the object)"
							}
						}
					}
					if bi, ok := x.Call.Value.(*ssa.Builtin); ok && bi.Name() == "delete" {
						g = baseGlobal(x.Call.Args[0])
						how = "map delete"
					}
				}
				if g == nil || g.Pkg == nil || !strings.HasPrefix(g.Pkg.Pkg.Path(), modPath) {
					continue
				}
				writes[g] = append(writes[g], wsite{fn, in, how, inLockRegion(in)})
			}
		}
	}
	var gs []*ssa.Global
	for g := range writes {
		gs = append(gs, g)
	}
	sort.Slice(gs, func(i, j int) bool { return gs[i].String() < gs[j].String() })
	nPipe := 0
	for _, g := range gs {
		gname := strings.TrimPrefix(g.Pkg.Pkg.Path(), modPath+"/") + "." + g.Name()
		if subEntrypointPkg(g.Pkg.Pkg.Path()) {
			continue
		}
		ts := g.Type().(*types.Pointer).Elem().String()
		if strings.HasPrefix(ts, "sync.") || strings.HasPrefix(ts, "sync/atomic.") {
			continue
		}
		var unlocked []string
		pipeline := false
		for _, w := range writes[g] {
			if _, ok := reach[w.fn]; !ok {
				continue
			}
			pipeline = true
			if !w.locked {
				unlocked = append(unlocked, fmt.Sprintf("%s in %s at %s", w.how, SSAName(w.fn), c.Rel(w.in.Pos())))
			}
		}
		if !pipeline {
			r.OK("R04.7", "global "+gname, c.Rel(g.Pos()), "written only by code unreachable from pipeline goroutines (option parsing / set-up)")
			continue
		}
		nPipe++
		if why, ok := sharedOK[gname]; ok {
			r.OK("R04.7", "global "+gname, c.Rel(g.Pos()), "frozen exception: "+why)
			continue
		}
		r.Check(len(unlocked) == 0, "R04.7", "global "+gname, c.Rel(g.Pos()), "every pipeline-time write is inside a Lock()/Unlock() region",
			"package-level variable is written from pipeline goroutines without a lock ("+strings.Join(unlocked, "; ")+"): with two verbs in a chain this is a data race (wrong or schedule-dependent output, or 'concurrent map writes' crash)")
	}
	r.Floor("R04.7", "package-level variables written outside init", len(gs), 10)
	r.Extra["globals_written_at_pipeline_time"] = nPipe
}

// inLockRegion: some (*sync.Mutex).Lock / RWMutex.Lock call dominates the
// instruction and a matching Unlock is deferred or follows.
func inLockRegion(in ssa.Instruction) bool {
	fn := in.Parent()
	blk := in.Block()
	for _, b := range fn.Blocks {
		for i, i2 := range b.Instrs {
			call, ok := i2.(*ssa.Call)
			if !ok {
				continue
			}
			n := CalleeName(&call.Call)
			if n != "sync.Mutex.Lock" && n != "sync.RWMutex.Lock" {
				continue
			}
			if b == blk {
				// must precede in the block
				pos := -1
				for j, i3 := range b.Instrs {
					if i3 == in {
						pos = j
					}
				}
				if pos > i && !unlockBetween(b, i, pos) {
					return true
				}
			} else if b.Dominates(blk) {
				// no unlock on the straight path from lock to end of its block
				if !unlockBetween(b, i, len(b.Instrs)) || hasDeferredUnlock(fn) {
					return true
				}
			}
		}
	}
	return false
}

func unlockBetween(b *ssa.BasicBlock, i, j int) bool {
	for k := i + 1; k < j && k < len(b.Instrs); k++ {
		if call, ok := b.Instrs[k].(*ssa.Call); ok {
			n := CalleeName(&call.Call)
			if n == "sync.Mutex.Unlock" || n == "sync.RWMutex.Unlock" {
				return true
			}
		}
	}
	return false
}

func hasDeferredUnlock(fn *ssa.Function) bool {
	for _, b := range fn.Blocks {
		for _, in := range b.Instrs {
			if d, ok := in.(*ssa.Defer); ok {
				n := CalleeName(&d.Call)
				if n == "sync.Mutex.Unlock" || n == "sync.RWMutex.Unlock" {
					return true
				}
			}
		}
	}
	return false
}

// ---- R04.8 -------------------------------------------------------------------
func c04Rand(c *Ctx, r *Report) {
	r.Rule("R04.8", "randomness has one seeded owner: only pkg/lib/rand.go imports math/rand; no use of math/rand's global-source functions; crypto/rand is not used for data; lib.SeedRandom is the only writer of the generator after init")
	n := 0
	for _, p := range c.Pkgs {
		if subEntrypointPkg(p.PkgPath) {
			continue
		}
		for _, f := range p.Syntax {
			file := c.RelFile(f.Pos())
			for _, imp := range f.Imports {
				path := strings.Trim(imp.Path.Value, `"`)
				if path == "math/rand" || path == "math/rand/v2" || path == "crypto/rand" {
					n++
					ok := file == "pkg/lib/rand.go" && path == "math/rand"
					r.Check(ok, "R04.8", "import "+path+" in "+file, c.Rel(imp.Pos()), "the seeded owner", "a second source of randomness outside pkg/lib/rand.go is not controlled by --seed: seeded runs are no longer reproducible")
				}
			}
		}
	}
	r.Floor("R04.8", "math/rand imports", n, 1)
	// global-source functions
	lp := c.Pkg("pkg/lib")
	bad := ""
	for _, f := range lp.Syntax {
		if c.RelFile(f.Pos()) != "pkg/lib/rand.go" {
			continue
		}
		ast.Inspect(f, func(nd ast.Node) bool {
			call, ok := nd.(*ast.CallExpr)
			if !ok {
				return true
			}
			if fn := resolveFuncExpr(lp.TypesInfo, call.Fun); fn != nil && fn.Pkg() != nil && fn.Pkg().Path() == "math/rand" {
				if fn.Type().(*types.Signature).Recv() == nil && fn.Name() != "New" && fn.Name() != "NewSource" {
					bad = fn.Name() + " at " + c.Rel(call.Pos())
				}
			}
			return true
		})
	}
	r.Check(bad == "", "R04.8", "no global-source math/rand function", "pkg/lib/rand.go", "only rand.New / rand.NewSource and methods of the owned generator", "uses the process-global math/rand source ("+bad+"), which --seed does not control")
}

// ---- R04.9 -------------------------------------------------------------------
// mapRangeOK: frozen exceptions "function" -> reason
var mapRangeOK = map[string]string{
	"pkg/output.*MultiOutputHandlerManager.Close": "order in which distinct output files are closed; affects no file's contents, only which of several close errors is listed first",
	"pkg/input.dcfParagraphToRecord":              "fallback for an empty para.Order; the control-file parser always fills Order when Values is non-empty",
	"pkg/mlrval.*Mlrmap.CopyUnflattened":          "each iteration replaces the value of a distinct, already existing key in place (PutReference keeps position): iterations commute",
	"pkg/mlrval.*Mlrmap.CopyUnflattenFields":      "each iteration replaces the value of a distinct, already existing key in place: iterations commute",
}

func c04MapOrder(c *Ctx, r *Report) {
	r.Rule("R04.9", "built-in map iteration order never reaches output: every range over a built-in Go map in the verbs, writers, readers, DSL runtime and mlrval is order-insensitive (keys collected then sorted; body only accumulates commutatively, deletes, closes or looks up) — grouping state uses lib.OrderedMap / Mlrmap")
	scope := []string{"pkg/transformers", "pkg/transformers/utils", "pkg/output", "pkg/input", "pkg/dsl/cst", "pkg/runtime", "pkg/mlrval", "pkg/bifs", "pkg/lib", "pkg/stream", "pkg/types"}
	n := 0
	for _, rel := range scope {
		p := c.Pkg(rel)
		if p == nil {
			continue
		}
		for _, file := range p.Syntax {
			var stack []ast.Node
			ast.Inspect(file, func(nd ast.Node) bool {
				if nd == nil {
					stack = stack[:len(stack)-1]
					return true
				}
				stack = append(stack, nd)
				rs, ok := nd.(*ast.RangeStmt)
				if !ok {
					return true
				}
				tv, ok := p.TypesInfo.Types[rs.X]
				if !ok {
					return true
				}
				if _, isMap := tv.Type.Underlying().(*types.Map); !isMap {
					return true
				}
				n++
				fname := "?"
				for i := len(stack) - 1; i >= 0; i-- {
					if fd, ok := stack[i].(*ast.FuncDecl); ok {
						fname = fd.Name.Name
						if fd.Recv != nil && len(fd.Recv.List) > 0 {
							fname = types.ExprString(fd.Recv.List[0].Type) + "." + fname
						}
						break
					}
				}
				key := fmt.Sprintf("%s: range over %s in %s", rel, types.ExprString(rs.X), fname)
				why, ok2 := mapRangeOrderInsensitive(p.TypesInfo, rs, stack)
				if !ok2 {
					if reason, frozen := mapRangeOK[rel+"."+fname]; frozen {
						r.OK("R04.9", key, c.Rel(rs.Pos()), "frozen exception: "+reason)
						return true
					}
				}
				r.Check(ok2, "R04.9", key, c.Rel(rs.Pos()), why, "iteration over a built-in map whose body is order-sensitive ("+why+"): Go randomises map order, so output order differs from run to run")
				return true
			})
		}
	}
	r.Floor("R04.9", "ranges over built-in maps", n, 8)
}

// mapRangeOrderInsensitive recognises the accepted forms.
func mapRangeOrderInsensitive(info *types.Info, rs *ast.RangeStmt, stack []ast.Node) (string, bool) {
	// form 1: body only appends key/value to a slice which is sorted later in the same function
	if len(rs.Body.List) == 1 {
		if as, ok := rs.Body.List[0].(*ast.AssignStmt); ok && len(as.Lhs) == 1 && len(as.Rhs) == 1 {
			if call, ok := as.Rhs[0].(*ast.CallExpr); ok {
				if id, ok := call.Fun.(*ast.Ident); ok && id.Name == "append" {
					// is the slice sorted afterwards?
					target := types.ExprString(as.Lhs[0])
					var fbody *ast.BlockStmt
					for i := len(stack) - 1; i >= 0; i-- {
						if fd, ok := stack[i].(*ast.FuncDecl); ok {
							fbody = fd.Body
							break
						}
						if fl, ok := stack[i].(*ast.FuncLit); ok {
							fbody = fl.Body
							break
						}
					}
					sorted := false
					if fbody != nil {
						ast.Inspect(fbody, func(nd ast.Node) bool {
							c2, ok := nd.(*ast.CallExpr)
							if !ok || c2.Pos() < rs.End() {
								return true
							}
							fs := types.ExprString(c2.Fun)
							if strings.HasPrefix(fs, "sort.") || strings.HasPrefix(fs, "slices.Sort") || strings.Contains(fs, "Sort") {
								for _, a := range c2.Args {
									if strings.Contains(types.ExprString(a), target) {
										sorted = true
									}
								}
							}
							return true
						})
					}
					if sorted {
						return "keys collected into " + target + " and sorted", true
					}
					return "collects into " + target + " which is never sorted", false
				}
			}
		}
	}
	// form 1b: keys[i] = key; i++ ... then sort(keys)
	if len(rs.Body.List) == 2 {
		if as, ok := rs.Body.List[0].(*ast.AssignStmt); ok && len(as.Lhs) == 1 {
			if ie, ok := as.Lhs[0].(*ast.IndexExpr); ok {
				if _, ok := rs.Body.List[1].(*ast.IncDecStmt); ok {
					target := types.ExprString(ie.X)
					var fbody *ast.BlockStmt
					for i := len(stack) - 1; i >= 0; i-- {
						if fd, ok := stack[i].(*ast.FuncDecl); ok {
							fbody = fd.Body
							break
						}
					}
					sorted := false
					if fbody != nil {
						ast.Inspect(fbody, func(nd ast.Node) bool {
							c2, ok := nd.(*ast.CallExpr)
							if !ok || c2.Pos() < rs.End() {
								return true
							}
							if strings.HasPrefix(types.ExprString(c2.Fun), "sort.") {
								for _, a := range c2.Args {
									if types.ExprString(a) == target {
										sorted = true
									}
								}
							}
							return true
						})
					}
					if sorted {
						return "keys stored into " + target + " and sorted", true
					}
				}
			}
		}
	}
	// form 2: body consists only of order-insensitive statements
	ok := true
	why := "body only deletes, closes, counts, or stores into other maps"
	var check func(s ast.Stmt)
	check = func(s ast.Stmt) {
		switch x := s.(type) {
		case *ast.ExprStmt:
			call, isCall := x.X.(*ast.CallExpr)
			if !isCall {
				ok = false
				return
			}
			fs := types.ExprString(call.Fun)
			if fs == "delete" || fs == "close" || strings.HasSuffix(fs, ".Close") || strings.HasSuffix(fs, ".Wait") {
				return
			}
			ok = false
			why = "calls " + fs
		case *ast.AssignStmt:
			// m2[k] = v ; n += x ; x = append? no
			for _, l := range x.Lhs {
				switch l.(type) {
				case *ast.IndexExpr:
					if tv, ok2 := info.Types[l.(*ast.IndexExpr).X]; ok2 {
						if _, isMap := tv.Type.Underlying().(*types.Map); isMap {
							continue
						}
					}
					ok = false
					why = "assigns to an indexed non-map"
				case *ast.Ident:
					if x.Tok == token.ADD_ASSIGN || x.Tok == token.OR_ASSIGN || x.Tok == token.AND_ASSIGN || x.Tok == token.DEFINE || x.Tok == token.ASSIGN {
						for _, rr := range x.Rhs {
							if call, isCall := rr.(*ast.CallExpr); isCall {
								if id, isId := call.Fun.(*ast.Ident); isId && id.Name == "append" {
									ok = false
									why = "appends in map order"
								}
							}
						}
						continue
					}
					ok = false
				default:
					ok = false
					why = "assigns to " + types.ExprString(l)
				}
			}
		case *ast.IncDecStmt:
		case *ast.IfStmt:
			for _, s2 := range x.Body.List {
				check(s2)
			}
			if x.Else != nil {
				if bs, isB := x.Else.(*ast.BlockStmt); isB {
					for _, s2 := range bs.List {
						check(s2)
					}
				} else {
					check(x.Else)
				}
			}
		case *ast.BlockStmt:
			for _, s2 := range x.List {
				check(s2)
			}
		case *ast.BranchStmt:
		case *ast.ReturnStmt:
			// returning from inside a map iteration picks an arbitrary element
			if len(x.Results) > 0 {
				// returning a constant/bool found-flag is order-insensitive only for existence tests
				for _, res := range x.Results {
					if tv, ok2 := info.Types[res]; ok2 && tv.Value != nil {
						continue
					}
					if id, isId := res.(*ast.Ident); isId && (id.Name == "true" || id.Name == "false" || id.Name == "nil") {
						continue
					}
					ok = false
					why = "returns an element chosen by map order"
				}
			}
		default:
			ok = false
			why = fmt.Sprintf("contains %T", s)
		}
	}
	for _, s := range rs.Body.List {
		check(s)
	}
	return why, ok
}

// ---- R04.11 -------------------------------------------------------------------
// Reader state that is loop-carried across batches must live in the reader:
// a per-batch local initialised from a receiver field and later reassigned
// must be written back to that field wherever it is reassigned.
func c04StateShadow(c *Ctx, r *Report) {
	r.Rule("R04.11", "reader state carried across batches lives in the reader: in the per-batch functions of package input, a local that is initialised from a receiver field and reassigned inside the batch loop is written back to that field at every reassignment (otherwise the value seen by the next batch depends on where the batch boundary falls)")
	p := c.Pkg("pkg/input")
	n := 0
	for _, fobj := range c.FuncsOfPkg(p) {
		fn := c.SSAFunc(fobj)
		if fn == nil || fn.Blocks == nil {
			continue
		}
		// candidate functions: take a receiver/reader pointer as first param and a channel
		if len(fn.Params) == 0 {
			continue
		}
		if _, ok := fn.Params[0].Type().(*types.Pointer); !ok {
			continue
		}
		hasChan := false
		for _, prm := range fn.Params {
			if _, ok := prm.Type().Underlying().(*types.Chan); ok {
				hasChan = true
			}
		}
		if !hasChan {
			continue
		}
		recv := fn.Params[0]
		for _, b := range fn.Blocks {
			for _, in := range b.Instrs {
				phi, ok := in.(*ssa.Phi)
				if !ok {
					continue
				}
				// loop header phi with one edge = load of recv.field (initial), others = new values
				var fld *types.Var
				var fldIdx int
				for _, e := range phi.Edges {
					if u, ok := e.(*ssa.UnOp); ok && u.Op == token.MUL {
						if fa, ok := u.X.(*ssa.FieldAddr); ok && fa.X == recv {
							st := recv.Type().(*types.Pointer).Elem().Underlying().(*types.Struct)
							fld = st.Field(fa.Field)
							fldIdx = fa.Field
						}
					}
				}
				if fld == nil || !inLoop(b) {
					continue
				}
				n++
				// every other incoming value must be stored to recv.field in the edge's predecessor block chain
				for i, e := range phi.Edges {
					if e == phi {
						continue
					}
					if u, ok := e.(*ssa.UnOp); ok && u.Op == token.MUL {
						if fa, ok := u.X.(*ssa.FieldAddr); ok && fa.X == recv && fa.Field == fldIdx {
							continue
						}
					}
					if p2, ok := e.(*ssa.Phi); ok && phiOnlyFrom(p2, phi, recv, fldIdx, 0) {
						continue
					}
					pred := b.Preds[i]
					stored := storedToFieldOnPath(pred, recv, fldIdx, e)
					key := fmt.Sprintf("%s: local shadow of %s.%s (edge %d)", fobj.Name(), recvTypeName(recv.Type()), fld.Name(), i)
					r.Check(stored, "R04.11", key, c.Rel(phi.Pos()), "reassignment is mirrored by a store to the field",
						fmt.Sprintf("a per-batch local copy of reader field %s is reassigned without storing the new value back to the field: if the batch ends before the next write-back, the following batch starts from stale state (output depends on --records-per-batch)", fld.Name()))
				}
			}
		}
	}
	r.OK("R04.11", "per-batch functions scanned", "", fmt.Sprintf("%d loop-carried shadows of receiver fields found in package input", n))
}

func phiOnlyFrom(p *ssa.Phi, root *ssa.Phi, recv ssa.Value, fld int, depth int) bool {
	if depth > 4 {
		return false
	}
	for _, e := range p.Edges {
		if e == root || e == p {
			continue
		}
		if u, ok := e.(*ssa.UnOp); ok && u.Op == token.MUL {
			if fa, ok := u.X.(*ssa.FieldAddr); ok && fa.X == recv && fa.Field == fld {
				continue
			}
		}
		if p2, ok := e.(*ssa.Phi); ok && phiOnlyFrom(p2, root, recv, fld, depth+1) {
			continue
		}
		return false
	}
	return true
}

// storedToFieldOnPath: walking back from block b through single-predecessor
// chains, is there a store recv.field = val?
func storedToFieldOnPath(b *ssa.BasicBlock, recv ssa.Value, fld int, val ssa.Value) bool {
	for i := 0; i < 6 && b != nil; i++ {
		for _, in := range b.Instrs {
			if st, ok := in.(*ssa.Store); ok {
				if fa, ok := st.Addr.(*ssa.FieldAddr); ok && fa.X == recv && fa.Field == fld {
					if st.Val == val || sameValue(st.Val, val) {
						return true
					}
					if k1, ok1 := st.Val.(*ssa.Const); ok1 {
						if k2, ok2 := val.(*ssa.Const); ok2 && k1.IsNil() && k2.IsNil() {
							return true
						}
					}
				}
			}
		}
		if len(b.Preds) != 1 {
			return false
		}
		b = b.Preds[0]
	}
	return false
}

// ---- R04.12 ------------------------------------------------------------------
// A handle a function hands to its caller is closed by the caller only: a
// goroutine started by the same function that also closes it races with the
// caller's reads/writes (what is still buffered when it fires is lost).
func c04HandleOwnership(c *Ctx, r *Report) {
	r.Rule("R04.12", "one closer per handle: no function both returns a handle (a value with a Close method) to its caller and starts a goroutine that closes that same handle — the goroutine's timing would decide how much the caller can still read or write")
	n := 0
	for _, fn := range c.ModuleFunctions() {
		if fn.Pkg != nil && strings.Contains(fn.Pkg.Pkg.Path(), "/pkg/terminals") {
			continue
		}
		// values returned
		returned := map[ssa.Value]bool{}
		for _, b := range fn.Blocks {
			if ret, ok := b.Instrs[len(b.Instrs)-1].(*ssa.Return); ok {
				for _, res := range ret.Results {
					v := res
					for i := 0; i < 4; i++ {
						switch x := v.(type) {
						case *ssa.MakeInterface:
							v = x.X
						case *ssa.ChangeInterface:
							v = x.X
						}
					}
					returned[v] = true
				}
			}
		}
		for _, b := range fn.Blocks {
			for _, in := range b.Instrs {
				g, ok := in.(*ssa.Go)
				if !ok {
					continue
				}
				var gf *ssa.Function
				bind := map[ssa.Value]ssa.Value{} // goroutine-side value → creator-side value
				switch v := g.Call.Value.(type) {
				case *ssa.MakeClosure:
					gf, _ = v.Fn.(*ssa.Function)
					if gf != nil {
						for i, fv := range gf.FreeVars {
							if i < len(v.Bindings) {
								bind[fv] = v.Bindings[i]
							}
						}
					}
				case *ssa.Function:
					gf = v
				}
				if gf == nil || gf.Blocks == nil {
					continue
				}
				for i, p := range gf.Params {
					if i < len(g.Call.Args) {
						bind[p] = g.Call.Args[i]
					}
				}
				n++
				key := fmt.Sprintf("%s: goroutine #%d", SSAName(fn), n)
				bad := ""
				for _, gb := range gf.Blocks {
					for _, gin := range gb.Instrs {
						call, ok := gin.(ssa.CallInstruction)
						if !ok {
							continue
						}
						com := call.Common()
						isClose := (com.IsInvoke() && com.Method.Name() == "Close") || strings.HasSuffix(CalleeName(com), ".Close")
						if !isClose {
							continue
						}
						var recv ssa.Value
						if com.IsInvoke() {
							recv = com.Value
						} else if len(com.Args) > 0 {
							recv = com.Args[0]
						}
						// a captured variable is a cell: look at what the creator stored in it
						if ld, ok := recv.(*ssa.UnOp); ok && ld.Op == token.MUL {
							if outer, ok := bind[ld.X]; ok {
								if al, ok := outer.(*ssa.Alloc); ok {
									for _, ref := range *al.Referrers() {
										if st, ok := ref.(*ssa.Store); ok && st.Addr == al && returned[st.Val] {
											bad = c.Rel(gin.Pos())
										}
									}
								}
							}
						}
						if outer, ok := bind[recv]; ok && returned[outer] {
							bad = c.Rel(gin.Pos())
						}
					}
				}
				r.Check(bad == "", "R04.12", key, c.Rel(g.Pos()), "closes nothing the creator returns",
					fmt.Sprintf("%s returns a handle to its caller and also starts a goroutine that closes it (%s): whatever the caller has not read or written when the goroutine fires is lost, so the output depends on scheduling", SSAName(fn), bad))
			}
		}
	}
	r.Floor("R04.12", "goroutines started by module functions", n, 10)
}

// ---- R04.13 ------------------------------------------------------------------
// A producer that receives the downstream-done signal inside its loop stops
// looping: the select case must not lead back to the select (an unlabeled
// `break` there only leaves the select).
func c04DoneEndsLoop(c *Ctx, r *Report) {
	r.Rule("R04.13", "a received done signal ends the loop: when a select inside a loop has a case receiving from a bool (done) channel, that case either cannot come back to the select (return, labelled break) or changes state the loop can test (a variable or field assigned in the case) — an unlabeled break in an otherwise state-free case leaves only the select, and the producer would consume the one-shot signal and keep producing")
	n := 0
	for _, fn := range c.ModuleFunctions() {
		if fn.Pkg == nil {
			continue
		}
		pp := fn.Pkg.Pkg.Path()
		if !(strings.HasSuffix(pp, "/pkg/transformers") || strings.HasSuffix(pp, "/pkg/input") || strings.HasSuffix(pp, "/pkg/stream") || strings.HasSuffix(pp, "/pkg/output")) {
			continue
		}
		for _, b := range fn.Blocks {
			for _, in := range b.Instrs {
				sel, ok := in.(*ssa.Select)
				if !ok {
					continue
				}
				if !blockReachesSelf(b) {
					continue
				}
				for k, st := range sel.States {
					if st.Dir != types.RecvOnly || !chanElemIsBool(st.Chan.Type()) {
						continue
					}
					cb := selectCaseBlock(sel, k)
					if os.Getenv("MLRLINT_DEBUG") != "" {
						fmt.Fprintf(os.Stderr, "DONECASE %s %s cb=%v\n", SSAName(fn), c.Rel(sel.Pos()), cb != nil)
					}
					if cb == nil {
						continue
					}
					if os.Getenv("MLRLINT_DEBUG") != "" {
						fmt.Fprintf(os.Stderr, "  reaches=%v changes=%v cbInstrs=%d\n", blockReaches(cb, b), caseChangesLoopState(cb, b), len(cb.Instrs))
					}
					n++
					key := fmt.Sprintf("%s: done case #%d", SSAName(fn), n)
					if why, ok := doneLoopOK[SSAName(fn)]; ok {
						r.OK("R04.13", key, c.Rel(sel.Pos()), "frozen exception: "+why)
						continue
					}
					r.Check(!blockReaches(cb, b) || caseChangesLoopState(cb, b), "R04.13", key, c.Rel(sel.Pos()), "the case leaves the loop or changes what the loop tests",
						fmt.Sprintf("%s receives the done signal in a select inside a loop and can come back to that select afterwards: the signal is consumed (it is sent once) and the loop keeps producing — with a distant stop value the chain does not terminate", SSAName(fn)))
				}
			}
		}
	}
	r.Floor("R04.13", "done cases inside loops", n, 2)
}

var doneLoopOK = map[string]string{}

func blockReachesSelf(b *ssa.BasicBlock) bool {
	for _, s := range b.Succs {
		if blockReaches(s, b) {
			return true
		}
	}
	return false
}

// selectCaseBlock: the block executed when select chose state k.
func selectCaseBlock(sel *ssa.Select, k int) *ssa.BasicBlock {
	var idx ssa.Value
	for _, ref := range *sel.Referrers() {
		if ex, ok := ref.(*ssa.Extract); ok && ex.Index == 0 {
			idx = ex
		}
	}
	if idx == nil {
		return nil
	}
	for _, ref := range *idx.Referrers() {
		bo, ok := ref.(*ssa.BinOp)
		if !ok || bo.Op != token.EQL {
			continue
		}
		if v, ok := constInt(bo.Y); !ok || int(v) != k {
			continue
		}
		for _, r2 := range *bo.Referrers() {
			if iff, ok := r2.(*ssa.If); ok {
				return iff.Block().Succs[0]
			}
		}
	}
	return nil
}

// caseChangesLoopState: inside the region that only the case reaches (blocks
// dominated by its first block) a field or cell is stored, or where that
// region rejoins the common code some variable gets a value it would not get
// on the other ways in (a phi edge that differs).
func caseChangesLoopState(cb, selBlock *ssa.BasicBlock) bool {
	region := map[*ssa.BasicBlock]bool{}
	var collect func(b *ssa.BasicBlock)
	collect = func(b *ssa.BasicBlock) {
		if region[b] || !cb.Dominates(b) {
			return
		}
		region[b] = true
		for _, s := range b.Succs {
			collect(s)
		}
	}
	collect(cb)
	for b := range region {
		for _, in := range b.Instrs {
			if st, ok := in.(*ssa.Store); ok {
				switch st.Addr.(type) {
				case *ssa.Alloc, *ssa.FieldAddr, *ssa.IndexAddr, *ssa.Global:
					return true
				}
			}
		}
		for _, s := range b.Succs {
			if region[s] {
				continue
			}
			// leaving the case's region: compare phi edges at the join
			pi := -1
			for i, p := range s.Preds {
				if p == b {
					pi = i
				}
			}
			for _, in := range s.Instrs {
				phi, ok := in.(*ssa.Phi)
				if !ok {
					break
				}
				if pi >= 0 {
					for i, e := range phi.Edges {
						// compare with the other ways out of the same select only (not with the loop's entry edge)
						if i != pi && !region[s.Preds[i]] && selBlock.Dominates(s.Preds[i]) && e != phi.Edges[pi] {
							return true
						}
					}
				}
			}
		}
	}
	return false
}

// R04.15: the first record a verb drops for good comes with the done signal.
// head (the one verb that originates downstream-done) must tell the producers
// upstream to stop when it starts ignoring records, or an unbounded input
// (yes | mlr head -n 0) is read forever. Per path: in a function that calls
// SignalDownstreamDone with a constant true, every path through the record
// branch (not end of stream) that does not append to the output list sends
// the signal, or has found set the flag that is only set next to the send.
func c04DropSignalsDone(c *Ctx, r *Report) {
	r.Rule("R04.15", "the first record dropped comes with the done signal: in a verb function that originates downstream-done (SignalDownstreamDone(ch, true)), every path through the not-end-of-stream branch that appends nothing to the output list calls SignalDownstreamDone or has read as true the receiver flag that is stored true only in a block that sends the signal — a head that signals along with the last record it passes never signals for -n 0 and reads an endless input forever")
	n := 0
	for _, fn := range c.ModuleFunctions() {
		if fn.Pkg == nil || fn.Blocks == nil || !strings.Contains(fn.Pkg.Pkg.Path(), "/pkg/transformers") {
			continue
		}
		var sends []*ssa.Call
		for _, b := range fn.Blocks {
			for _, in := range b.Instrs {
				if call, ok := in.(*ssa.Call); ok && strings.HasSuffix(CalleeName(&call.Call), ".SignalDownstreamDone") && len(call.Call.Args) == 2 {
					if k, ok := call.Call.Args[1].(*ssa.Const); ok && k.Value != nil && k.Value.ExactString() == "true" {
						sends = append(sends, call)
					}
				}
			}
		}
		if len(sends) == 0 {
			continue
		}
		n++
		key := SSAName(fn) + ": drop paths"
		// flags stored true in a sending block
		flags := map[string]bool{}
		for _, s := range sends {
			for _, in := range s.Block().Instrs {
				if st, ok := in.(*ssa.Store); ok {
					if k, ok := st.Val.(*ssa.Const); ok && k.Value != nil && k.Value.ExactString() == "true" {
						if _, name, ok := fieldAddrName(st.Addr); ok {
							flags[name] = true
						}
					}
				}
			}
		}
		// and nowhere else
		for _, b := range fn.Blocks {
			for _, in := range b.Instrs {
				if st, ok := in.(*ssa.Store); ok {
					if _, name, ok := fieldAddrName(st.Addr); ok && flags[name] {
						sending := false
						for _, s := range sends {
							if s.Block() == b {
								sending = true
							}
						}
						if !sending {
							delete(flags, name)
						}
					}
				}
			}
		}
		bad := token.NoPos
		pr := &PathRule{Fn: fn, Init: Facts{}}
		pr.Transfer = func(f Facts, in ssa.Instruction, deferred bool) []Facts {
			if call, ok := in.(*ssa.Call); ok {
				if bi, ok := call.Call.Value.(*ssa.Builtin); ok && bi.Name() == "append" {
					return []Facts{f.With("app")}
				}
				if strings.HasSuffix(CalleeName(&call.Call), ".SignalDownstreamDone") {
					return []Facts{f.With("sig")}
				}
			}
			return nil
		}
		pr.Branch = func(f Facts, cond ssa.Value, pol bool, iff *ssa.If) (Facts, bool) {
			cond, pol = stripNot(cond, pol)
			if _, name, ok := fieldLoadName(cond); ok {
				if name == "EndOfStream" {
					if pol {
						return f.With("eos"), true
					}
					return f.With("rec"), true
				}
				if flags[name] && pol {
					return f.With("flag"), true
				}
			}
			return f, true
		}
		pr.AtReturn = func(f Facts, ret *ssa.Return) {
			if f.Has("rec") && !f.Has("app") && !f.Has("sig") && !f.Has("flag") && bad == token.NoPos {
				bad = ret.Pos()
				if bad == token.NoPos {
					bad = fn.Pos()
				}
			}
		}
		pr.Run()
		if pr.Overflow {
			r.Undecided("R04.15", key, c.Rel(fn.Pos()), "too many path states")
			continue
		}
		r.Check(bad == token.NoPos, "R04.15", key, c.Rel(fn.Pos()), "every path that drops a record sends the signal or has seen it sent",
			fmt.Sprintf("%s has a path through its record branch that appends nothing to the output and neither calls SignalDownstreamDone nor has found its sent-flag set: the producers upstream are not told to stop when records start being ignored, and an endless input is read forever", SSAName(fn)))
	}
	r.Floor("R04.15", "verb functions that originate downstream-done", n, 1)
}

// R04.16: what is sent on a channel is given away. A slice sent to another
// goroutine shares its backing array with the sender's copy; re-slicing that
// same slice afterwards (s = s[:0]) and appending to it overwrites what the
// receiver is still reading.
func c04SentSliceGivenAway(c *Ctx, r *Report) {
	r.Rule("R04.16", "what is sent on a channel is given away: after a slice has been sent on a channel (send statement or send case of a select), the sending function does not re-slice that same slice (s[:0], s[:n]) — the result shares the backing array the receiving goroutine is reading; a fresh slice is made instead")
	n := 0
	for _, fn := range c.ModuleFunctions() {
		if fn.Pkg == nil || fn.Blocks == nil || !IsModuleFunc(fn) {
			continue
		}
		type sent struct {
			v   ssa.Value
			at  *ssa.BasicBlock
			pos token.Pos
		}
		var sents []sent
		for _, b := range fn.Blocks {
			for _, in := range b.Instrs {
				switch x := in.(type) {
				case *ssa.Send:
					if _, ok := x.X.Type().Underlying().(*types.Slice); ok {
						sents = append(sents, sent{x.X, b, x.Pos()})
					}
				case *ssa.Select:
					for _, st := range x.States {
						if st.Dir == types.SendOnly && st.Send != nil {
							if _, ok := st.Send.Type().Underlying().(*types.Slice); ok {
								sents = append(sents, sent{st.Send, b, x.Pos()})
							}
						}
					}
				}
			}
		}
		k := 0
		for _, s := range sents {
			n++
			k++
			key := fmt.Sprintf("%s: slice sent #%d", SSAName(fn), k)
			bad := token.NoPos
			for _, b := range fn.Blocks {
				if !(b == s.at || blockReaches(s.at, b)) {
					continue
				}
				for _, in := range b.Instrs {
					sl, ok := in.(*ssa.Slice)
					if !ok {
						continue
					}
					if sl.X == s.v || sameValue(sl.X, s.v) {
						if b == s.at && sl.Pos() < s.pos && !blockReachesSelf(b) {
							continue // before the send
						}
						bad = sl.Pos()
					}
				}
			}
			r.Check(bad == token.NoPos, "R04.16", key, c.Rel(s.pos), "not re-sliced by the sender afterwards",
				fmt.Sprintf("%s sends a slice on a channel and re-slices the same slice afterwards (%s): the new slice shares the backing array with what the receiving goroutine is reading, so later appends overwrite records that have not been written yet", SSAName(fn), c.Rel(bad)))
		}
	}
	r.Floor("R04.16", "slices sent on channels", n, 5)
}
