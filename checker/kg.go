package main

// Analysis B ("kindguard"): which kinds can reach a typed access, and is
// that access guarded. Flow facts come from dominating branch conditions
// whose meaning is derived from the predicate bodies (kindeval); requirements
// come from the bodies of the typed accessors and from preconditions that
// unguarded accesses impose on a function's own parameters.

import (
	"fmt"
	"go/token"
	"go/types"
	"sort"
	"strings"

	"golang.org/x/tools/go/ssa"
)

// VSet: bit i = variant i of kgVariants (12 kinds, then the 4 pending variants).
type VSet uint32

var kgVariants = AllKindVariants(true)

const vsAll VSet = (1 << 16) - 1
const vsKinds VSet = (1 << 12) - 1 // non-pending

func vsOfKind(k int) VSet { return 1 << uint(k) }

func (s VSet) String() string {
	var parts []string
	for i, v := range kgVariants {
		if s&(1<<uint(i)) != 0 {
			parts = append(parts, v.String())
		}
	}
	sort.Strings(parts)
	return "{" + strings.Join(parts, ",") + "}"
}

type kgReq struct {
	Allowed VSet
	Why     string
}

type kgSite struct {
	Fn      *ssa.Function
	Pos     token.Pos
	What    string // e.g. "AcquireIntValue"
	Arg     ssa.Value
	Allowed VSet
	Known   VSet
	Param   int // index of the fn parameter the value is, or -1
	Status  string
}

type KG struct {
	c    *Ctx
	rs   *RetSum
	ke   *KindEval
	base map[*ssa.Function][]kgReq // per parameter; nil entry = no requirement
	pred map[string]*PredFacts
	// preconditions of module functions on their own parameters
	flow     map[knownKey]map[*ssa.BasicBlock]VSet
	pre      map[*ssa.Function][]VSet
	preWhy   map[*ssa.Function][]string
	resolves map[*ssa.Function]bool
	Sites    []kgSite
	bailed   map[string]bool
}

func NewKG(c *Ctx) *KG {
	rs := NewRetSum(c)
	return &KG{c: c, rs: rs, ke: NewKindEval(c, rs), base: map[*ssa.Function][]kgReq{}, pred: map[string]*PredFacts{},
		flow: map[knownKey]map[*ssa.BasicBlock]VSet{}, pre: map[*ssa.Function][]VSet{}, preWhy: map[*ssa.Function][]string{}, resolves: map[*ssa.Function]bool{}, bailed: map[string]bool{}}
}

func variantAV(v KindVariant) AV { return AV{T: 'm', MK: v.Kind, Pend: v.Pend} }

// baseReq: for a function of package mlrval (accessors etc.), which variants
// of parameter pi make it abort. Derived by abstract evaluation of the body.
func (kg *KG) baseReq(fn *ssa.Function, pi int) (VSet, string, bool) {
	if fn == nil || fn.Blocks == nil || pi >= len(fn.Params) || !isMlrvalPtr(fn.Params[pi].Type()) {
		return vsAll, "", false
	}
	if reqs, ok := kg.base[fn]; ok && pi < len(reqs) && reqs[pi].Why != "" {
		return reqs[pi].Allowed, reqs[pi].Why, reqs[pi].Allowed != vsAll
	}
	allowed := vsAll
	why := ""
	for i, v := range kgVariants {
		args := make([]AV, len(fn.Params))
		for j, p := range fn.Params {
			args[j] = avUnknownFor(p.Type())
		}
		args[pi] = variantAV(v)
		res := kg.ke.Eval(fn, args)
		if res.Bailed {
			kg.bailed[SSAName(fn)] = true
			return vsAll, "", false
		}
		if res.Abort {
			allowed &^= 1 << uint(i)
			if why == "" {
				why = res.AbortAt
			}
		}
	}
	if len(kg.base[fn]) < len(fn.Params) {
		nb := make([]kgReq, len(fn.Params))
		copy(nb, kg.base[fn])
		for j := range nb {
			if nb[j].Allowed == 0 && nb[j].Why == "" {
				nb[j].Allowed = vsAll
			}
		}
		kg.base[fn] = nb
	}
	if why == "" {
		why = "-"
	}
	kg.base[fn][pi] = kgReq{Allowed: allowed, Why: why}
	return allowed, why, allowed != vsAll
}

// predFacts: may-true / may-false variant sets for a bool-returning function
// of one Mlrval parameter (result index ri).
func (kg *KG) predFacts(fn *ssa.Function, pi, ri int) *PredFacts {
	key := fmt.Sprintf("%p/%d/%d", fn, pi, ri)
	if pf, ok := kg.pred[key]; ok {
		return pf
	}
	pf := kg.ke.UnaryPred(fn, pi, ri)
	kg.pred[key] = pf
	return pf
}

func (kg *KG) vsetWhere(pf *PredFacts, m map[KindVariant]bool) VSet {
	var out VSet
	for i, v := range kgVariants {
		if m[v] {
			out |= 1 << uint(i)
		}
	}
	return out
}

// resolvesType: does calling fn on parameter pi infer the value's type (so
// that afterwards it is no longer pending)?
func (kg *KG) resolvesType(fn *ssa.Function, pi int) bool {
	return kg.ke.callsType(fn, pi) || SSAFuncName(fn) == "pkg/mlrval.Mlrval.Type"
}

func resolvePending(s VSet) VSet {
	out := s & vsKinds
	for i, v := range kgVariants {
		if v.Pend && s&(1<<uint(i)) != 0 {
			out |= vsOfKind(v.Kind)
		}
	}
	return out
}

// refine: apply one guard to the known set of value x.
func (kg *KG) refine(known VSet, x ssa.Value, g Guard) VSet {
	cond := g.Cond
	ri := 0
	if ex, ok := cond.(*ssa.Extract); ok {
		if call, isCall := ex.Tuple.(*ssa.Call); isCall {
			cond = call
			ri = ex.Index
		}
	}
	switch c := cond.(type) {
	case *ssa.Call:
		callee := c.Call.StaticCallee()
		if callee == nil || !IsModuleFunc(callee) || callee.Blocks == nil {
			return known
		}
		pi := -1
		for i, a := range c.Call.Args {
			if sameValue(a, x) {
				pi = i
			}
		}
		if pi < 0 || pi >= len(callee.Params) || !isMlrvalPtr(callee.Params[pi].Type()) {
			return known
		}
		res := callee.Signature.Results()
		if ri >= res.Len() {
			return known
		}
		if b, isB := res.At(ri).Type().Underlying().(*types.Basic); !isB || b.Info()&types.IsBoolean == 0 {
			// error-valued second result of Get…OrError: nil ⇔ success
			return known
		}
		pf := kg.predFacts(callee, pi, ri)
		if pf.Bailed {
			return known
		}
		var keep VSet
		if g.Polarity {
			keep = kg.vsetWhere(pf, pf.MayTrue)
		} else {
			keep = kg.vsetWhere(pf, pf.MayFalse)
		}
		out := known & keep
		if kg.resolvesType(callee, pi) {
			out = resolvePending(out)
		}
		return out
	case *ssa.BinOp:
		// x.Type() == MT_K  /  != ; errValue == nil for Get…OrError
		if c.Op == token.EQL || c.Op == token.NEQ {
			var call *ssa.Call
			var k ssa.Value
			if cc, ok := c.X.(*ssa.Call); ok {
				call, k = cc, c.Y
			} else if cc, ok := c.Y.(*ssa.Call); ok {
				call, k = cc, c.X
			}
			if call != nil && CalleeName(&call.Call) == "pkg/mlrval.Mlrval.Type" && len(call.Call.Args) == 1 && sameValue(call.Call.Args[0], x) {
				if n, ok := constInt(k); ok && n >= 0 && n < K_DIM {
					eq := (c.Op == token.EQL) == g.Polarity
					known = resolvePending(known)
					if eq {
						return known & vsOfKind(int(n))
					}
					return known &^ vsOfKind(int(n))
				}
			}
			// errValue (second result, *Mlrval) of Get…ValueOrError compared with nil
			if ex, ok := c.X.(*ssa.Extract); ok {
				if kc, isK := c.Y.(*ssa.Const); isK && kc.IsNil() {
					if gc, isCall := ex.Tuple.(*ssa.Call); isCall && ex.Index == 1 {
						callee := gc.Call.StaticCallee()
						if callee != nil && strings.HasSuffix(callee.Name(), "OrError") && len(gc.Call.Args) >= 1 && sameValue(gc.Call.Args[0], x) {
							// success (errValue == nil) ⇔ the first result was produced without error: evaluate with kindeval on result 1 being NIL
							okNil := (c.Op == token.EQL) == g.Polarity
							var keep VSet
							for i, v := range kgVariants {
								args := make([]AV, len(callee.Params))
								for j, p := range callee.Params {
									args[j] = avUnknownFor(p.Type())
								}
								args[0] = variantAV(v)
								res := kg.ke.Eval(callee, args)
								if res.Bailed || len(res.Results) < 2 {
									return known
								}
								t := res.Results[1].Toks
								mayNil := t.Has("NIL") || len(t) == 0
								mayNon := !t.SubsetOf("NIL") || len(t) == 0
								if (okNil && mayNil) || (!okNil && mayNon) {
									keep |= 1 << uint(i)
								}
							}
							return resolvePending(known & keep)
						}
					}
				}
			}
		}
	}
	return known
}

// originKinds: what is known about v from how it was produced.
func (kg *KG) originKinds(v ssa.Value, fn *ssa.Function, depth int) VSet {
	if depth > 4 {
		return vsAll
	}
	switch x := v.(type) {
	case *ssa.Call:
		callee := x.Call.StaticCallee()
		if callee != nil && SSAFuncName(callee) == "pkg/mlrval.Mlrval.Copy" && len(x.Call.Args) == 1 {
			return kg.KnownAt(x.Call.Args[0], x) // a copy has the kind of its source
		}
		if callee != nil && IsModuleFunc(callee) && isMlrvalPtrResult(callee.Signature) {
			// context-sensitive for one Mlrval argument: evaluate the callee per variant of the argument
			nm, mi := 0, -1
			for i, a := range x.Call.Args {
				if isMlrvalPtr(a.Type()) {
					nm++
					mi = i
				}
			}
			if nm == 1 && depth < 2 {
				ak := kg.KnownAt(x.Call.Args[mi], x)
				var out VSet
				okAll := true
				for vi, v := range kgVariants {
					if ak&(1<<uint(vi)) == 0 {
						continue
					}
					args := make([]AV, len(callee.Params))
					for j, p := range callee.Params {
						args[j] = avUnknownFor(p.Type())
					}
					args[mi] = variantAV(v)
					res := kg.ke.Eval(callee, args)
					if res.Bailed || len(res.Results) == 0 || res.Results[0].T != 'm' {
						okAll = false
						break
					}
					for t := range res.Results[0].Toks {
						if k := tokKind(t); k >= 0 {
							out |= vsOfKind(k)
						} else if strings.HasPrefix(t, "ARG") {
							out |= 1 << uint(vi)
						} else {
							okAll = false
						}
					}
					if len(res.Results[0].Toks) == 0 && res.Returns {
						okAll = false
					}
				}
				if okAll && out != 0 {
					return out
				}
			}
			toks := kg.rs.Of(callee)
			var out VSet
			for t := range toks {
				switch {
				case tokKind(t) >= 0:
					out |= vsOfKind(tokKind(t))
				case strings.HasPrefix(t, "ARG"):
					k := kg.rs.argIndex(callee, t)
					if k >= 0 && k < len(x.Call.Args) {
						out |= kg.KnownAt(x.Call.Args[k], x)
					} else {
						return vsAll
					}
				default:
					return vsAll
				}
			}
			if out != 0 {
				return out
			}
		}
	case *ssa.UnOp:
		if x.Op == token.MUL {
			if g, ok := x.X.(*ssa.Global); ok {
				if tok, ok := kg.rs.globals[g]; ok && tokKind(tok) >= 0 {
					return vsOfKind(tokKind(tok))
				}
			}
		}
	case *ssa.Phi:
		var out VSet
		for i, e := range x.Edges {
			pred := x.Block().Preds[i]
			if _, isConst := e.(*ssa.Const); isConst {
				continue // nil: dereferencing it is a different defect class
			}
			if depth < 3 && e != x {
				out |= kg.KnownAt(e, pred.Instrs[len(pred.Instrs)-1])
			} else {
				out |= kg.originKinds(e, fn, depth+1)
			}
		}
		if out == 0 {
			return vsAll
		}
		return out
	}
	return vsAll
}

// KnownAt: variants of x that can reach instruction `at`. Forward dataflow
// over the function's CFG (meet = union over incoming edges, so guards
// combined with && / || are handled), refined on every branch edge.
func (kg *KG) KnownAt(x ssa.Value, at ssa.Instruction) VSet {
	fn := at.Parent()
	if fn == nil || fn.Blocks == nil {
		return vsAll
	}
	key := knownKey{x, fn}
	in, ok := kg.flow[key]
	if !ok {
		in = kg.flowFor(x, fn)
		kg.flow[key] = in
	}
	st := in[at.Block()]
	// resolving calls and assertions that precede `at` inside its block
	for _, ins := range at.Block().Instrs {
		if ins == at {
			break
		}
		if st&^vsKinds != 0 && kg.resolvesHere(ins, x) {
			st = resolvePending(st)
		}
		st = kg.assertRefine(st, x, ins)
	}
	return st
}

// assertRefine: after lib.InternalCodingErrorIf(cond) control continues only
// with cond false (the assertion itself is judged as a site of its own).
func (kg *KG) assertRefine(st VSet, x ssa.Value, ins ssa.Instruction) VSet {
	call, ok := ins.(*ssa.Call)
	if !ok {
		return st
	}
	n := CalleeName(&call.Call)
	if n != "pkg/lib.InternalCodingErrorIf" && n != "pkg/lib.InternalCodingErrorWithMessageIf" {
		return st
	}
	cond, pol := stripNot(call.Call.Args[0], false)
	return kg.refine(st, x, Guard{Cond: cond, Polarity: pol})
}

type knownKey struct {
	x  ssa.Value
	fn *ssa.Function
}

func (kg *KG) resolvesHere(ins ssa.Instruction, x ssa.Value) bool {
	call, ok := ins.(*ssa.Call)
	if !ok {
		return false
	}
	callee := call.Call.StaticCallee()
	if callee == nil || !IsModuleFunc(callee) {
		return false
	}
	for i, a := range call.Call.Args {
		if sameValue(a, x) && kg.resolvesType(callee, i) {
			return true
		}
	}
	return false
}

func (kg *KG) flowFor(x ssa.Value, fn *ssa.Function) map[*ssa.BasicBlock]VSet {
	in := map[*ssa.BasicBlock]VSet{}
	origin := kg.originKinds(x, fn, 0)
	// the block where x becomes available
	start := fn.Blocks[0]
	if ins, ok := x.(ssa.Instruction); ok && ins.Block() != nil && ins.Parent() == fn {
		start = ins.Block()
		// a load of a memory location (slice element, field) that is re-loaded at every use:
		// tests made on an earlier load of the same location count (sameValue), so the
		// facts flow from the function entry. Assumes the location is not overwritten in between.
		if u, isLoad := x.(*ssa.UnOp); isLoad && u.Op == token.MUL {
			switch u.X.(type) {
			case *ssa.IndexAddr, *ssa.FieldAddr:
				start = fn.Blocks[0]
			}
		}
	}
	in[start] = origin
	work := []*ssa.BasicBlock{start}
	for len(work) > 0 {
		b := work[0]
		work = work[1:]
		st := in[b]
		for _, ins := range b.Instrs {
			if st&^vsKinds != 0 && kg.resolvesHere(ins, x) {
				st = resolvePending(st)
			}
			st = kg.assertRefine(st, x, ins)
		}
		last := b.Instrs[len(b.Instrs)-1]
		for k, s := range b.Succs {
			es := st
			if iff, ok := last.(*ssa.If); ok && len(b.Succs) == 2 && b.Succs[0] != b.Succs[1] {
				cond, pol := stripNot(iff.Cond, k == 0)
				es = kg.refine(st, x, Guard{Cond: cond, Polarity: pol, Block: b})
			}
			// loads of memory (fields, elements) are re-evaluated per load; for such x the
			// state is only meaningful where x dominates — handled by the caller's use of x
			if in[s]|es != in[s] {
				in[s] |= es
				work = append(work, s)
			}
		}
	}
	return in
}

func (kg *KG) typeCalledBefore(x ssa.Value, at ssa.Instruction) bool {
	fn := at.Parent()
	for _, b := range fn.Blocks {
		if !b.Dominates(at.Block()) {
			continue
		}
		for _, in := range b.Instrs {
			if in == at {
				break
			}
			call, ok := in.(*ssa.Call)
			if !ok {
				continue
			}
			callee := call.Call.StaticCallee()
			if callee == nil || !IsModuleFunc(callee) {
				continue
			}
			for i, a := range call.Call.Args {
				if sameValue(a, x) && kg.resolvesType(callee, i) {
					return true
				}
			}
		}
	}
	return false
}

// Analyse computes preconditions for all module functions in the given
// packages to a fixpoint and records every requirement site.
func (kg *KG) Analyse(pkgs []string) {
	var fns []*ssa.Function
	inPkg := map[string]bool{}
	for _, p := range pkgs {
		inPkg[modPath+"/"+p] = true
	}
	for _, f := range kg.c.ModuleFunctions() {
		top := enclosingNamed(f)
		if top.Pkg != nil && inPkg[top.Pkg.Pkg.Path()] {
			fns = append(fns, f)
		}
	}
	for round := 0; round < 6; round++ {
		changed := false
		kg.Sites = kg.Sites[:0]
		for _, fn := range fns {
			if kg.scan(fn) {
				changed = true
			}
		}
		if !changed {
			break
		}
	}
}

// requirement of passing a value as argument ai of a call.
func (kg *KG) callReq(com *ssa.CallCommon, ai int) (VSet, string, bool) {
	callee := com.StaticCallee()
	if callee == nil || !IsModuleFunc(callee) {
		return vsAll, "", false
	}
	if ai >= len(callee.Params) {
		return vsAll, "", false
	}
	// computed precondition of a module function
	if pre, ok := kg.pre[callee]; ok && ai < len(pre) && pre[ai] != vsAll {
		return pre[ai], "precondition of " + SSAName(callee) + ": " + kg.preWhy[callee][ai], true
	}
	if callee.Pkg != nil && callee.Pkg.Pkg.Path() == mlrvalPkg && callee.Signature.Recv() != nil && ai == 0 {
		name := callee.Name()
		if strings.HasPrefix(name, "Acquire") {
			if a, why, has := kg.baseReq(callee, ai); has {
				return a, name + " (" + why + ")", true
			}
		}
	}
	return vsAll, "", false
}

func (kg *KG) scan(fn *ssa.Function) bool {
	changed := false
	np := len(fn.Params)
	pre := kg.pre[fn]
	if pre == nil {
		pre = make([]VSet, np)
		for i := range pre {
			pre[i] = vsAll
		}
		kg.pre[fn] = pre
		kg.preWhy[fn] = make([]string, np)
	}
	addSite := func(in ssa.Instruction, what string, x ssa.Value, allowed VSet) {
		known := kg.KnownAt(x, in)
		pi := paramIndex(fn, x)
		st := kgSite{Fn: fn, Pos: in.Pos(), What: what, Arg: x, Allowed: allowed, Known: known, Param: pi}
		bad := known &^ allowed
		switch {
		case bad == 0:
			st.Status = "guarded"
		case pi >= 0:
			st.Status = "precondition"
			np := pre[pi] &^ bad
			if np != pre[pi] {
				pre[pi] = np
				kg.preWhy[fn][pi] = fmt.Sprintf("%s at %s", what, kg.c.Rel(in.Pos()))
				changed = true
			}
		default:
			st.Status = "unguarded"
		}
		kg.Sites = append(kg.Sites, st)
	}
	for _, b := range fn.Blocks {
		for _, in := range b.Instrs {
			switch x := in.(type) {
			case ssa.CallInstruction:
				com := x.Common()
				if com.IsInvoke() {
					continue
				}
				for ai, a := range com.Args {
					if !isMlrvalPtr(a.Type()) {
						continue
					}
					if allowed, why, has := kg.callReq(com, ai); has {
						addSite(in, why, a, allowed)
					}
				}
				// lib.InternalCodingErrorIf(pred(x)): the kinds on which pred may be true are forbidden
				name := CalleeName(com)
				if name == "pkg/lib.InternalCodingErrorIf" || name == "pkg/lib.InternalCodingErrorWithMessageIf" {
					cond, pol := stripNot(com.Args[0], true)
					if pc, ok := cond.(*ssa.Call); ok {
						callee := pc.Call.StaticCallee()
						if callee != nil && IsModuleFunc(callee) && len(pc.Call.Args) >= 1 && isMlrvalPtr(pc.Call.Args[0].Type()) {
							pf := kg.predFacts(callee, 0, 0)
							if !pf.Bailed {
								var forbidden VSet
								if pol {
									forbidden = kg.vsetWhere(pf, pf.MayTrue)
								} else {
									forbidden = kg.vsetWhere(pf, pf.MayFalse)
								}
								// the assertion itself resolves nothing; forbid those variants
								addSite(in, "InternalCodingErrorIf("+callee.Name()+")", pc.Call.Args[0], vsAll&^forbidden|pendingOf(vsAll&^forbidden))
							}
						}
					}
				}
			}
		}
	}
	return changed
}

// pendingOf: a requirement on resolved kinds is also satisfied by pending
// values that resolve to an allowed kind *if* the consumer infers first; for
// assertions reading mvtype directly pending stays forbidden, so this returns 0.
func pendingOf(s VSet) VSet { return 0 }
