package main

// Reader for cli.FLAG_TABLE and analysis F: constant effects of each flag's
// parser closure on *TOptions.

import (
	"fmt"
	"go/ast"
	"go/constant"
	"go/token"
	"go/types"
	"sort"
	"strings"

	"golang.org/x/tools/go/ssa"
)

type FlagInfo struct {
	Name    string
	Alts    []string
	Arg     string
	Help    string
	Section string
	Pos     token.Pos
	Fn      *ssa.Function // parser closure or named function
	FnName  string
}

func (f *FlagInfo) Spellings() []string { return append([]string{f.Name}, f.Alts...) }

type flagEffect struct {
	Path  string // e.g. ReaderOptions.InputFileFormat
	Value string // constant rendering, "arg" (derived from the command-line argument), or "?"
	Pos   token.Pos
}

type FlagEffects struct {
	Stores   []flagEffect
	Pargi    []int64 // increments of *pargi on non-error paths (distinct values)
	Calls    []string
	MaxArgIx int64 // largest k in args[*pargi+k] read
	Checked  int64 // largest n in CheckArgCount(args, *pargi, argc, n)
}

func (fe *FlagEffects) StoreMap() map[string]string {
	m := map[string]string{}
	for _, s := range fe.Stores {
		if prev, ok := m[s.Path]; ok && prev != s.Value {
			m[s.Path] = prev + "|" + s.Value
		} else {
			m[s.Path] = s.Value
		}
	}
	return m
}

// FlagTable reads cli.FLAG_TABLE.
func (c *Ctx) FlagTable() ([]*FlagInfo, string) {
	p := c.Pkg("pkg/cli")
	if p == nil {
		return nil, "package pkg/cli not loaded"
	}
	sp := c.SSA[modPath+"/pkg/cli"]
	// map FuncLit position -> ssa function
	lits := map[token.Pos]*ssa.Function{}
	if sp != nil {
		var walk func(f *ssa.Function)
		walk = func(f *ssa.Function) {
			for _, an := range f.AnonFuncs {
				if an.Syntax() != nil {
					lits[an.Syntax().Pos()] = an
				}
				walk(an)
			}
		}
		for _, m := range sp.Members {
			if f, ok := m.(*ssa.Function); ok {
				walk(f)
			}
		}
	}
	var table *ast.CompositeLit
	for _, f := range p.Syntax {
		for _, d := range f.Decls {
			gd, ok := d.(*ast.GenDecl)
			if !ok || gd.Tok != token.VAR {
				continue
			}
			for _, s := range gd.Specs {
				vs := s.(*ast.ValueSpec)
				for i, nm := range vs.Names {
					if nm.Name == "FLAG_TABLE" && i < len(vs.Values) {
						table, _ = vs.Values[i].(*ast.CompositeLit)
					}
				}
			}
		}
	}
	if table == nil {
		return nil, "cli.FLAG_TABLE literal not found"
	}
	var out []*FlagInfo
	strOf := func(e ast.Expr) string {
		if tv, ok := p.TypesInfo.Types[e]; ok && tv.Value != nil && tv.Value.Kind() == constant.String {
			return constant.StringVal(tv.Value)
		}
		return ""
	}
	var visitSection func(cl *ast.CompositeLit)
	visitSection = func(cl *ast.CompositeLit) {
		secName := ""
		var flagsLit *ast.CompositeLit
		for _, el := range cl.Elts {
			kv, ok := el.(*ast.KeyValueExpr)
			if !ok {
				continue
			}
			switch kv.Key.(*ast.Ident).Name {
			case "name":
				secName = strOf(kv.Value)
			case "flags":
				flagsLit, _ = kv.Value.(*ast.CompositeLit)
			}
		}
		if flagsLit == nil {
			return
		}
		for _, fe := range flagsLit.Elts {
			fl, ok := fe.(*ast.CompositeLit)
			if !ok {
				continue
			}
			fi := &FlagInfo{Section: secName, Pos: fl.Pos()}
			for _, el := range fl.Elts {
				kv, ok := el.(*ast.KeyValueExpr)
				if !ok {
					continue
				}
				switch kv.Key.(*ast.Ident).Name {
				case "name":
					fi.Name = strOf(kv.Value)
				case "arg":
					fi.Arg = strOf(kv.Value)
				case "help":
					fi.Help = strOf(kv.Value)
				case "altNames":
					if al, ok := kv.Value.(*ast.CompositeLit); ok {
						for _, a := range al.Elts {
							fi.Alts = append(fi.Alts, strOf(a))
						}
					}
				case "parser":
					switch v := kv.Value.(type) {
					case *ast.FuncLit:
						fi.Fn = lits[v.Pos()]
						fi.FnName = "closure"
					default:
						if fo := resolveFuncExpr(p.TypesInfo, v); fo != nil {
							fi.Fn = c.SSAFunc(fo)
							fi.FnName = fo.Name()
						}
					}
				}
			}
			out = append(out, fi)
		}
	}
	// sections given as &SomeFlagSection: resolve the package-level variables
	secVars := map[string]*ast.CompositeLit{}
	for _, f := range p.Syntax {
		for _, d := range f.Decls {
			gd, ok := d.(*ast.GenDecl)
			if !ok || gd.Tok != token.VAR {
				continue
			}
			for _, s := range gd.Specs {
				vs := s.(*ast.ValueSpec)
				for i, nm := range vs.Names {
					if i < len(vs.Values) {
						if cl, ok := vs.Values[i].(*ast.CompositeLit); ok {
							if tv, ok := p.TypesInfo.Types[cl]; ok {
								if named, isN := tv.Type.(*types.Named); isN && named.Obj().Name() == "FlagSection" {
									secVars[nm.Name] = cl
								}
							}
						}
					}
				}
			}
		}
	}
	ast.Inspect(table, func(n ast.Node) bool {
		if ue, ok := n.(*ast.UnaryExpr); ok && ue.Op == token.AND {
			if id, ok := ue.X.(*ast.Ident); ok {
				if cl, ok := secVars[id.Name]; ok {
					visitSection(cl)
					return false
				}
			}
		}
		return true
	})
	// FLAG_TABLE = FlagTable{ sections: []*FlagSection{ {…}, &{…} } }
	ast.Inspect(table, func(n ast.Node) bool {
		cl, ok := n.(*ast.CompositeLit)
		if !ok {
			return true
		}
		tv, ok := p.TypesInfo.Types[cl]
		if !ok {
			return true
		}
		t := tv.Type
		if pt, isP := t.(*types.Pointer); isP {
			t = pt.Elem()
		}
		if named, isN := t.(*types.Named); isN && named.Obj().Name() == "FlagSection" {
			visitSection(cl)
			return false
		}
		return true
	})
	return out, ""
}

// optionsPath renders the access path of an address rooted at the options
// parameter: options.ReaderOptions.IFS → "ReaderOptions.IFS".
func optionsPath(addr ssa.Value, root ssa.Value) (string, bool) {
	var parts []string
	cur := addr
	for i := 0; i < 8; i++ {
		switch x := cur.(type) {
		case *ssa.FieldAddr:
			st, ok := x.X.Type().Underlying().(*types.Pointer).Elem().Underlying().(*types.Struct)
			if !ok {
				return "", false
			}
			parts = append([]string{st.Field(x.Field).Name()}, parts...)
			cur = x.X
		case *ssa.UnOp:
			if x.Op != token.MUL {
				return "", false
			}
			cur = x.X
		default:
			if cur == root {
				return strings.Join(parts, "."), true
			}
			return "", false
		}
	}
	return "", false
}

func constRender(v ssa.Value) (string, bool) {
	k, ok := v.(*ssa.Const)
	if !ok {
		return "", false
	}
	if k.Value == nil {
		return "nil", true
	}
	switch k.Value.Kind() {
	case constant.String:
		return fmt.Sprintf("%q", constant.StringVal(k.Value)), true
	default:
		return k.Value.ExactString(), true
	}
}

// derivesFromArgs: value computed from the args slice parameter.
func derivesFromArgs(v ssa.Value, args ssa.Value, depth int) bool {
	if v == args {
		return true
	}
	if depth > 8 {
		return false
	}
	switch x := v.(type) {
	case *ssa.UnOp:
		return derivesFromArgs(x.X, args, depth+1)
	case *ssa.IndexAddr:
		return derivesFromArgs(x.X, args, depth+1)
	case *ssa.Call:
		for _, a := range x.Call.Args {
			if derivesFromArgs(a, args, depth+1) {
				return true
			}
		}
	case *ssa.Extract:
		return derivesFromArgs(x.Tuple, args, depth+1)
	case *ssa.Convert:
		return derivesFromArgs(x.X, args, depth+1)
	case *ssa.Phi:
		for _, e := range x.Edges {
			if derivesFromArgs(e, args, depth+1) {
				return true
			}
		}
	case *ssa.BinOp:
		return derivesFromArgs(x.X, args, depth+1) || derivesFromArgs(x.Y, args, depth+1)
	case *ssa.Slice:
		return derivesFromArgs(x.X, args, depth+1)
	case *ssa.TypeAssert:
		return derivesFromArgs(x.X, args, depth+1)
	case *ssa.MakeInterface:
		return derivesFromArgs(x.X, args, depth+1)
	case *ssa.Lookup:
		return derivesFromArgs(x.Index, args, depth+1) || derivesFromArgs(x.X, args, depth+1)
	}
	return false
}

// EffectsOf computes the constant effects of a flag parser
// func(args []string, argc int, pargi *int, options *TOptions) error.
func (c *Ctx) EffectsOf(fn *ssa.Function) *FlagEffects {
	fe := &FlagEffects{}
	if fn == nil || fn.Blocks == nil || len(fn.Params) < 4 {
		return fe
	}
	c.collectEffects(fn, fn.Params[0], fn.Params[2], fn.Params[3], fe, 0, map[*ssa.Function]bool{}, nil)
	sort.Slice(fe.Stores, func(i, j int) bool { return fe.Stores[i].Path < fe.Stores[j].Path })
	sort.Strings(fe.Calls)
	return fe
}

// bind maps the callee's parameters to the constant (or argument-derived) values its caller passes.
func (c *Ctx) collectEffects(fn *ssa.Function, args, pargi, options ssa.Value, fe *FlagEffects, depth int, seen map[*ssa.Function]bool, bind map[ssa.Value]string) {
	if fn == nil || fn.Blocks == nil || depth > 3 || seen[fn] {
		return
	}
	seen[fn] = true
	for _, b := range fn.Blocks {
		// skip blocks that end in a non-nil error return (error paths)
		if ret, ok := b.Instrs[len(b.Instrs)-1].(*ssa.Return); ok && len(ret.Results) > 0 && isErrorType(ret.Results[len(ret.Results)-1].Type()) && !ReturnsNilError(ret) && len(b.Preds) > 0 {
			continue
		}
		for _, in := range b.Instrs {
			switch x := in.(type) {
			case *ssa.Store:
				if pargi != nil && x.Addr == pargi {
					if bo, ok := x.Val.(*ssa.BinOp); ok && bo.Op == token.ADD {
						if k, ok := constInt(bo.Y); ok {
							fe.Pargi = append(fe.Pargi, k)
						}
					}
					continue
				}
				if options == nil {
					continue
				}
				if path, ok := optionsPath(x.Addr, options); ok && path != "" {
					val := "?"
					if s, ok := constRender(x.Val); ok {
						val = s
					} else if b, ok := bind[x.Val]; ok {
						val = b
					} else if args != nil && derivesFromArgs(x.Val, args, 0) {
						val = "arg"
					}
					fe.Stores = append(fe.Stores, flagEffect{Path: path, Value: val, Pos: x.Pos()})
				}
			case *ssa.IndexAddr:
				// args[*pargi + k]
				if args != nil && x.X == args {
					k := int64(0)
					if bo, ok := x.Index.(*ssa.BinOp); ok && bo.Op == token.ADD {
						if kk, ok := constInt(bo.Y); ok {
							k = kk
						}
					}
					if k > fe.MaxArgIx {
						fe.MaxArgIx = k
					}
				}
			case *ssa.Call:
				name := CalleeName(&x.Call)
				if name == "" {
					continue
				}
				if strings.HasSuffix(name, ".CheckArgCount") && len(x.Call.Args) >= 4 {
					if n, ok := constInt(x.Call.Args[3]); ok && n > fe.Checked {
						fe.Checked = n
					}
					continue
				}
				callee := x.Call.StaticCallee()
				passes := false
				var a2, p2, o2 ssa.Value
				if callee != nil && IsModuleFunc(callee) {
					for i, a := range x.Call.Args {
						if i >= len(callee.Params) {
							break
						}
						switch {
						case options != nil && a == options:
							o2 = callee.Params[i]
							passes = true
						case pargi != nil && a == pargi:
							p2 = callee.Params[i]
							passes = true
						case args != nil && a == args:
							a2 = callee.Params[i]
						}
					}
					// &options.ReaderOptions passed to a helper
					if !passes && options != nil {
						for i, a := range x.Call.Args {
							if path, ok := optionsPath(a, options); ok && path != "" && i < len(callee.Params) {
								sub := &FlagEffects{}
								c.collectEffects(callee, a2, nil, callee.Params[i], sub, depth+1, seen, c.bindArgs(callee, x.Call.Args, args, bind))
								for _, s := range sub.Stores {
									s.Path = path + "." + s.Path
									fe.Stores = append(fe.Stores, s)
								}
							}
						}
					}
				}
				if passes {
					c.collectEffects(callee, a2, p2, o2, fe, depth+1, seen, c.bindArgs(callee, x.Call.Args, args, bind))
				} else if callee != nil && IsModuleFunc(callee) {
					fe.Calls = append(fe.Calls, name)
				}
			}
		}
	}
}

// bindArgs: constant (or argument-derived) actuals of a helper call, keyed by the callee's parameters.
func (c *Ctx) bindArgs(callee *ssa.Function, actuals []ssa.Value, args ssa.Value, outer map[ssa.Value]string) map[ssa.Value]string {
	out := map[ssa.Value]string{}
	for i, a := range actuals {
		if i >= len(callee.Params) {
			break
		}
		if s, ok := constRender(a); ok {
			out[callee.Params[i]] = s
		} else if b, ok := outer[a]; ok {
			out[callee.Params[i]] = b
		} else if args != nil && derivesFromArgs(a, args, 0) {
			out[callee.Params[i]] = "arg"
		}
	}
	return out
}
