#!/usr/bin/env python3
"""Generates MANIFEST.json from the table below (kept next to the checker so the
two cannot drift apart silently). Run: python3 gen_manifest.py"""
import json, subprocess, os

HERE = os.path.dirname(os.path.abspath(__file__))

# property -> (technique, level text, level note, design ref)
CLAIMS = {
    "C08": (
        "disposition-table extraction + return summaries + abstract kind evaluation (go/types, go/ssa)",
        "Decides the kind-level null-data algebra exhaustively on the operator disposition matrices written in the source: for every arithmetic/bit/dot/min/max operator and every ordered kind pair the cell function is resolved and classified by a computed return summary, and the statement's clauses (absent identity, absent∘absent, unary of absent, empty with number, error absorbs, commutative symmetry, populated cells, absent-rvalue skip, compound operators, is_* truth tables) are checked cell by cell. Also: the dispatching function of every matrix operator has no way out besides its matrix; && and || are evaluated abstractly over true/false/non-boolean/empty/absent/error and equal the documented 6x6 tables of the null-data reference in all 72 cells. It does not decide numeric results or evaluator reachability.",
        "Trusts go/types+go/ssa, the overlay stub for the emptied generated parser, and that a cell function's return statements determine its result kind (computed, not assumed). Known deviations are listed per cell in known_findings.jsonl.",
        "DESIGN.md §3 C08",
    ),
}

CLAIMS["C17"] = (
    "path rules / typestate over SSA control-flow graphs (error-before-marker, drain-after-done, checked flush), who-may-exit call-graph rule, dropped-error enumeration",
    "Decides that every error that is raised reaches a non-zero exit in every send/receive order: on every CFG path a verb's error is posted before the end-of-stream marker, the writer posts before done, every done-waiter drains the error channels afterwards, Flush/Close errors of output are returned, no module error result on the data path is discarded (1 000+ call sites enumerated, discards classified), failed low-level reads are reported and end the read loop, os.Exit only from the keep-list with non-zero constant status, exitOnError always exits, and the message next to a failure exit goes to stderr. Also: the exit state of a prepipe child is examined at end of file; the error of every Flush / Close / Write / Rename / Chmod in the output, stream and entry-point packages is, on each path, compared, returned, sent or passed on before it can be overwritten; a read error becomes nil only under an end-of-file test. It does not decide that a reader detects a given malformed input.",
    "Trusts go/ssa's CFG, that select picks among ready channels arbitrarily, that a send on a full buffered channel blocks, and that bufio.Writer errors are sticky. Frozen exception tables (exit keep-list, tolerated discards) are in checker/exits.go and checker/c17.go with one reason per entry.",
    "DESIGN.md §3 C17",
)
CLAIMS["C19"] = (
    "typestate on the SSA CFG of entrypoint.processFileInPlace + value-flow (who may touch the target) + dominance + table agreement of the refusal helpers",
    "Decides the code half of the crash-consistency claim on every path, including all error paths: the target name flows only to stat/read/rename-destination/chmod; rename is reached only after Stream returned nil (whose nil return implies a checked Flush) and both closes succeeded; every failing exit after CreateTemp removes the temp file; refusals precede CreateTemp; temp is in the target's directory; per-file re-parse, one file per stream, stop at first error; chmod uses the pre-temp mode; no unexpected os.Exit reachable inside the stream. Also: lib.SeedRandom and lib.SetTZFromEnv are called from the per-file command-line parse and from nowhere in the entry point. The file system's atomic rename is trusted, not decided.",
    "Trusts rename(2) atomicity within a directory and go/ssa. The keep-list of exit sites is frozen in checker/exits.go.",
    "DESIGN.md §3 C19",
)

CLAIMS["C04"] = (
    "path rules on SSA CFGs with callee summaries (end-of-stream forwarding, reader/scanner termination, flush-after-write), channel-send classification, call-graph reachability (stdout, shared globals), lock-region check, AST classification of map ranges",
    "Decides the protocol obligations termination and schedule-independence rest on, for every verb, reader and scanner: end-of-stream forwarded on every path of all RecordTransformer implementations (through function-valued fields); readers end with exactly one marker; scanners send the pending batch then close once; every bool back-channel send is non-blocking; no stdout write reachable from reader/verb goroutines; flush follows every write under FlushOnEveryRecord; every package-level variable written from pipeline goroutines is locked; one seeded randomness owner; no order-sensitive iteration over built-in maps; reader state shadowed per batch is written back. Also: no function both returns a handle and starts a goroutine that closes it; a select case that receives a done signal inside a loop leaves the loop or changes state the loop tests. It does not decide byte-equality of outputs across batch sizes or timing.",
    "Trusts go/ssa, the VTA call graph over-approximation for reachability, and Go channel semantics (send on a full buffered channel blocks; select with default does not). Frozen exceptions with reasons in checker/c04.go.",
    "DESIGN.md §3 C04",
)

CLAIMS["C20"] = (
    "typestate / value-flow / control-dependence over the SSA of output.MultiOutputHandlerManager and its users; constructor-literal kinds; lock-region path rule",
    "Decides the handle-cache protocol behind 'any number of targets': evicted handler closed outside the lock with the error kept and the evicted key recorded; truncating reopen control-dependent on the evicted-names lookup; O_TRUNC/O_APPEND flag agreement; mutex balanced on every path and LRU helpers only under it; every DSL redirect manager registered and closed at end of stream; redirect operator ↔ manager kind in all builders; writer shutdown order in FileOutputHandler.Close; tee/split copy the record and close at end of stream; tee does not relay downstream-done; loss of per-target writer state on eviction (known finding). It does not decide which records reach which target.",
    "Trusts go/ssa and the frozen library facts (sync.Mutex semantics, O_* flag values for linux). Known finding K5 is listed in known_findings.jsonl.",
    "DESIGN.md §3 C20",
)

CLAIMS["C12"] = (
    "field-store ownership scan + paired-update path rule on SSA + loop-shape check of the index builder + mutator reachability for value-only verbs",
    "Decides the integrity of the record data structure all restructuring verbs rely on: structural fields of Mlrmap/MlrmapEntry are written only in package mlrval; every link/unlink primitive adjusts FieldCount and the lazily built key index on the same paths; every key change deletes the old index key and inserts the new one; buildIndex is a total Head→Next walk with first-occurrence-wins and findEntry uses the index only when it exists; the value-only verbs reach no structural mutator on their input record. It does not decide what each verb does to the fields it names, nor inverse-pair laws.",
    "Trusts go/ssa; a whole-map replacement (*m = *other) is taken as self-consistent; exemptions (unlinked fresh entries) are named in checker/c12.go.",
    "DESIGN.md §3 C12",
)

CLAIMS["C05"] = (
    "sibling cross-check of all IRecordReader implementations by typestate/path rules on SSA, upward-exposed-field analysis for per-file resets, store-effect extraction, cursor write-back path rule over all verb parsers",
    "Decides the bookkeeping discipline behind NR/FNR/FILENAME and file concatenation for every reader: exact store effects of the two context updates; every record created after exactly one count on every path; one file-start per handle before any production; every batch-carried reader field reset per file; all readers open inputs through the same helpers with the same options; NF read from the live record; every verb CLI parser stores the argument cursor back on every successful return. Also: an append to the output list inside a loop appends a value created in that loop (no aliased record emitted twice). It does not decide 'then' ≡ pipe or the values of NR in end blocks.",
    "Trusts go/ssa; batch functions reached through function-valued reader fields are resolved from the stores into those fields.",
    "DESIGN.md §3 C05",
)

CLAIMS["C03"] = (
    "store-effect summaries over SSA (which Mlrval parameters may have their retained text altered), propagated through static calls, inferrer tables, the inferrer variable and disposition tables; constructor classification in readers/writers",
    "Decides the mechanism byte-for-byte pass-through rests on: nothing reachable from type inference alters the retained original text (every printrep store re-installs the same value's text; no whole-value overwrite); String()/setPrintRep render lazily; every registered built-in function, every formatter, every accessor/predicate/comparator of mlrval and every accumulator leaves its arguments' text alone; in-place alteration of existing values happens only at frozen documented sites; readers build values only with text-retaining constructors; writers print retained text. It does not decide that verbs/DSL assign only what they should.",
    "Trusts go/ssa; dynamic calls other than the recognised forms (global func variables, func tables) are not followed. YAML input losing number spelling is a known finding.",
    "DESIGN.md §3 C03",
)

CLAIMS["C09"] = (
    "table extraction of the collation and <=>/relational matrices, order-theoretic checks (antisymmetry, transitivity via documented rank), abstract kind evaluation of kernels, mirror-shape check of comparator pairs, AST decision extraction of the sort verb's flag parser",
    "Decides what sorting needs from its comparison functions: the collation matrix is antisymmetric, total and in the documented kind order with the two mixed classes; kernels cannot abort in the cells they occupy; descending comparators mirror ascending ones; <=> returns only ints and is antisymmetric on constant cells, relational operators return only booleans; each sort flag spelling appends the comparator family/polarity it names with one comparator per field; key-less records are set aside. Also: no order kernel or comparator subtracts the two integers it orders; every slice field in which a verb sets records aside is read on every path of its end-of-stream branch. It does not decide that a run is an ordered permutation, stability, or natural-order details.",
    "Trusts go/types+go/ssa; the documented collation order and the flag table of sort are frozen in checker/c09.go.",
    "DESIGN.md §3 C09",
)
CLAIMS["C10"] = (
    "unchecked-result rule (guard dominance, merged ok-phis, assertions) over all key-selector call sites; field-type inventory of verb state; call-shape check of accumulators",
    "Narrow claim: decides three structural clauses for the aggregating verbs — records lacking a group-by/value field are left out (every key selector's ok result is branched on, values used only on the true edge); grouping state is ordered (no verb iterates a built-in map field into output); sum/min/max accumulators combine through the int-preserving BIFs; whole-record distinctness keys include field names. Every numerical result (sums, variances, percentiles, windows, ties) is NOT decided. Also: every accumulator Reset stores every field its Ingest stores; keys that stand for a list of values or keys (group-by keys, schema keys) are built with length-prefixed elements, never with a bare separator between raw elements.",
    "Trusts go/ssa. Frozen exceptions (per-element nil handling in step, join bucket keeper) with reasons in checker/c10.go.",
    "DESIGN.md §3 C10",
)
CLAIMS["C11"] = (
    "effect analysis (structural mutators, value stores, record constructors) over the selecting verbs; path rule on the filter emit decision; who-may-originate-done scan; per-record state reset check",
    "Decides 'only records that were in the input, unchanged' as an effect property for all 15 selecting verbs, filter's polarity (XOR with -x, absent=false, other non-boolean=error, no drop before the XOR), that only the ungrouped head originates the stop-reading signal, that grouped variants skip key-less records, and that the filter result is reset per record. It does not decide which records are selected.",
    "Trusts go/ssa; the list of selecting verbs/modes and of legitimate done-originators is frozen in checker/c11.go.",
    "DESIGN.md §3 C11",
)

CLAIMS["C14"] = (
    "grammar-source reader (precedence chain of mlr.bnf) compared with the documented table and the BIF registry; push/pop typestate, pool-clearing path rule, payload-propagation check, field invariant of TypeGatedMlrvalVariable.value, evaluate→push→bind ordering, loop-shape agreement of the five scope walks",
    "Decides structural invariants of the interpreter that the language semantics depend on: 17 precedence levels/operators/associativity of the grammar source equal the reference and every operator lexeme is implemented; every frame/frame-set/captures push is popped once on every path; pooled frames are cleared before reuse; every loop/block node propagates return/break payloads and errors; every binding goes through the type gate and copy-on-bind; arguments are evaluated before and bound after the callee's frame push; all five scope walks reach frame 0; interpreter state is per instance and reset per record. Agreement with a reference interpreter over all programs is NOT decided. Also: a BREAK payload received from a deeper level of the same loop nest (a recursive call) is returned to the level above.",
    "Trusts go/ssa; the generated LR tables are assumed to implement mlr.bnf (the generated parser is emptied in this snapshot and is not analysed). Three grammar/registry mismatches are known findings.",
    "DESIGN.md §3 C14",
)

CLAIMS["C07"] = (
    "NONZERO fixpoint for integer divisors, shift-count typing, kind-guard analysis of kernels against their cells, return summaries for int-preservation, operator-signature check (Go operator × operand provenance) of all numeric kernels, conversion-chain scan (int64→float64→int64 feeding an int result)",
    "Decides the no-crash clause (no integer division/modulus by an unproven divisor, no signed non-constant shift) and the dispatch wiring of every arithmetic/bit/min/max/relational operator: one matrix per operator, kernels accept the kinds of their cells, documented int-preserving cells build no float and mixed cells return floats, each numeric kernel applies the Go operator the DSL operator denotes with the left operand on the left, and no integer result is produced by converting an integer operand to float64 and back without any test of an operand or of the float (the absence of a test is decided lossy beyond 2^53; whether a present test is the right one is not decided). Also: the float64 result of GetNumericToFloatValue is converted back to an integer only where the int case was handled separately. Exactness, overflow detection and sign conventions are otherwise NOT decided (value-level).",
    "Trusts go/ssa; a - b written as a + (-b) is accepted (equal except at the int64 minimum). Frozen divisor exceptions with reasons in checker/nonzero.go.",
    "DESIGN.md §3 C07",
)
CLAIMS["C18"] = (
    "flow analysis over the 12 value kinds + 'not yet inferred' (predicate meanings and accessor requirements derived by abstract evaluation of package mlrval), parameter preconditions to fixpoint checked at callers, table cells and all registered built-ins; NONZERO analysis; loop-progress and make-length rules; slice-bound origin classification (constants, length/search of the sliced value, regexp indices, index validators) with dominating length tests, fixed-width window slices, slab cursors; read-loop path rule; who-may-exit",
    "Decides, universally over kind tuples, that no typed access / kind assertion can abort: ~500 Acquire…Value/assertion sites are each proven guarded by a dominating kind test or become a precondition that every caller, every one of ~2 700 disposition cells and every one of ~290 registered built-ins satisfies for all kinds incl. un-inferred values; plus no integer division by an unproven divisor, no signed shift count, no zero-step loop in the built-ins, no make() with a possibly negative length, failed reads end their loop, exits only from the keep-list; and, in the built-ins, library string helpers, scanners and the value model, every slice expression has bounds that are justified by their origin or reached after a test that mentions the length of the sliced value, every fixed-width window slice and every slab[cursor] access is length-tested. Element indexing in general, the arithmetic inside the index validators, nil dereference and recursion depth are NOT decided.",
    "Trusts go/ssa and the abstract evaluator (values that depend on loops are havocked; a memory location re-loaded at each use is assumed unchanged between test and use). One assertion is frozen as a CST-builder invariant (checker/c18.go).",
    "DESIGN.md §3 C18",
)

CLAIMS["C02"] = (
    "flag-table reader + constant effect summaries of ~280 flag-parser closures (go/ssa, helper calls followed) compared as store sets, with an option-consumer analysis (which reader/writer constructor reaches a load of which option field) to argue differences unobservable; AST/constant readers for the format factories, default-separator tables, separator aliases; path enumeration of the flatten decision functions",
    "Decides the clause 'every keystroke-saver, -i/-o/--io form and named separator is equivalent to its documented expansion' exhaustively over cli.FLAG_TABLE: each --X2Y / input-and-output / documented keystroke-saver flag has the same effect on the options as the flags it expands to, up to differences that no earlier option state can make observable (argued per difference and listed in the evidence); -i K/-o K/--io K against --iK/--oK/--K; argument cursor and argument-count check per parser; stored format names are factory labels with default separators; factory label builds its own family; aliases equal the documented table; auto-flatten/unflatten truth table. It does not decide A→B→A identities on data, nor the flatten/unflatten inverse laws (seeded change C02-1 is not caught).",
    "Trusts go/ssa, the model of finalisation (a separator ends as its stored value if its wasSpecified mark is set, else the per-format default — read from FinalizeReaderOptions/FinalizeWriterOptions by hand and frozen in checker/optuse.go:wasSpecifiedBase), and the help texts as the statement of each flag's expansion. Nine -i/-o/--io deviations are known findings.",
    "DESIGN.md §3 C02",
)

CLAIMS["C06"] = (
    "table readers (128-entry digit-class tables, the two inferrer tables indexed by scan type) + SSA effect identification of each inferrer (which strconv parser, base, prefix handling, fallback) + flag-table wiring + who-writes rule for the inferrer variable + token→constructor classification in the JSON scalar decoder",
    "Decides the tables and wiring that number inference is built from: digit classes equal the documented character sets with guarded accessors; both inferrer tables have one entry per scan type and the entry at each index parses as that scan type denotes (identified by effect, not by name); every numeric inferrer falls back to the original text as a string on parse failure, and out-of-range decimal integers try float first; the 16-digit hex two's-complement window covers both letter cases; -S/-A/-O each select exactly their inferrer and nothing else writes the inferrer variable; JSON strings are never inferred while JSON numbers go through the flag-selected inferrer. It does not decide the language accepted by the hand-written scanner automaton scan.FindScanType, nor numeric values at the 2^63 / 2^64 / 1e308 boundaries.",
    "Trusts go/ssa and strconv's documented behaviour for ParseInt/ParseUint/ParseFloat. One defect found and fixed (out-of-range decimal integers typed as strings).",
    "DESIGN.md §3 C06",
)

CLAIMS["C01"] = (
    "escape-table extraction from byte switches (AST + constants) with inverse/coverage checks; backward string-origin analysis over SSA (every output write of the TSV writer, every record/header store of the TSV reader); trigger-set extraction of the needs-quoting predicates; path enumeration of the quoted-field writer's cases; reachability from reader constructors (replacement inverses, built-in map iteration)",
    "Decides the table-agreement clause that round-tripping rests on: TSV encode/decode tables are inverse, cover exactly the IANA set and work byte-wise, and every key/value written and every header/data cell read passes through them; CSV and DKVPX needs-quoting predicates cover every byte the reader treats as structure, quote doubling is matched, no quoted special byte is dropped and the reader rewrites nothing inside quotes; the JSON string escape table covers quote, backslash and all control bytes with the RFC 8259 pairs and a four-hex-digit \\u form, for keys and values; the PPRINT empty-value token agrees; every constant replacement a writer applies has its inverse in the reader; no reader builds records through a Go map. Also: as long as the quoted writer turns LF into CR LF under --ors crlf, the reader turns CR LF inside quotes back into LF (the two sides agree with each other). It does not decide round-trip equality on data, widths/padding, ragged handling, BOM/CR-LF autodetection, or what an external RFC reader accepts.",
    "Trusts go/types constant folding, go/ssa, encoding/json and yaml.v3 for JSON/YAML decoding, and the frozen standard sets (IANA TSV escapes, RFC 4180 structure bytes, RFC 8259 escape pairs). Six deviations are known findings (CR dropped under --ors crlf, CR LF inside quotes read as LF, markdown pipe escape without inverse, YAML key order x3); two defects were fixed (TSV header cells not decoded, TSV writer replacing non-UTF-8 bytes).",
    "DESIGN.md §3 C01",
)

CLAIMS["C15"] = (
    "registry reader (266-row built-in function table) with a name-normalisation rule and frozen alias table; static reachability from verb constructors / verb files to functions and shared library routines, through dispatch tables; abstract kind evaluation of wrapper vs wrapped function (guard-domain comparison); callee identification for digests, math routines and regex compilation",
    "Decides only registry and wrapper agreement — that the name a user types reaches the implementation of that name: every function-table slot holds the function whose normalised name is the entry's name (operators and eight renames frozen), no implementation is shared except documented synonyms; sub/gsub/ssub, clean-whitespace, sec2gmtdate verbs reach exactly their own function, sec2gmt / utf8-to-latin1 / latin1-to-utf8 / format-values share the function's library routine, the sub-family wrappers' kind guard is not narrower than the function's domain, the case verb uses the same case mapper as toupper/tolower (known finding: it does not); digest functions call the crypto package of their own name and hex-encode the whole sum; math functions pass the math routine of their own name through the right vector; run-time regexes are compiled through the one entry point that implements the \"...\"i form. It decides nothing value-level: character counting, index bounds, regex/capture results, printf rendering, inverse pairs (both seeded changes for C15 are value-level and are not caught).",
    "Trusts go/ssa, the naming convention BIF_<name>[_arity] (a renamed function needs a line in the alias table), and the kind evaluator of checker/kindeval.go. Thin claim, stated as such.",
    "DESIGN.md §3 C15",
)

CLAIMS["C16"] = (
    "context-sensitive reachability over SSA specialised on constant boolean / nil arguments (branches on known parameters pruned through the helper layers) to a frozen set of zone-dependent operations; value flow from the zone-name parameter to time.LoadLocation; who-writes rule for time.Local and module-level *time.Location variables; dominance of SetTZFromEnv over successful returns of the command-line parser; abstract kind evaluation of documented pass-through; control dependence of the verb's store",
    "Decides the zone-separation clause and the wrapper clause: no GMT/zone-free time function of the built-in table can reach a process-zone read, a zone load or a conversion to a non-UTC location under the constant arguments its helpers receive; every *_local function without a zone argument reaches the process zone, and with one loads exactly that argument and no process zone; time.Local has one writer, no second copy of the zone is kept, every TZ assignment is followed by SetTZFromEnv; functions documented to leave non-numbers as-is do so in every arity; the sec2gmt verb stores only under the numeric test and sec2gmtdate returns non-numeric arguments unchanged. It does not decide which instant a text denotes, rounding of fractional seconds, format coverage, dhms splitting or DST arithmetic (seeded change C16-2 is value-level and not caught).",
    "Trusts go/ssa, Go's time package (LoadLocation returns a non-nil location when err is nil; Time.UTC/In/Local semantics), and the frozen list of zone-dependent operations in checker/c16.go. The rule against a second copy of the zone was written after seeing seeded change C16-1.",
    "DESIGN.md §3 C16",
)

# Rules added after the third seeding round and the triage of what the seeding
# sub-agents reported about the unchanged tree; appended to the level text.
ADDENDA = {
    "C15": " Also: in newFormatter the letters d x X o b lead to the integer formatters and e E f F g G to the float ones (R15.6); an integer derived from a regexp/strings byte offset by arithmetic alone is never made into a value — a taint analysis with function summaries (R15.7).",
    "C07": " Also: a signed division of two payload ints is reached only along paths that have set math.MinInt64 / -1 apart (R07.10). R07.5 requires the shifted operand of >> to be signed and of >>> unsigned at the SHR itself.",
    "C06": " Also: in pkg/scan a byte compared with a letter is compared with the other case of that letter too (R06.8). R06.5 follows an entry point that only delegates to the worker behind it. Further: no literal-node builder of package cst reaches the flag-selected inferrer (R06.9).",
    "C04": " Also: the index of a range over a sub-slice s[a:] is never used to index s itself (R04.14). Further: every path on which head drops a record sends downstream-done or has seen it sent (R04.15); a slice sent on a channel is not re-sliced by the sender afterwards (R04.16).",
    "C01": " Also: the CSV writer sends a field's text out whole only on the edge where fieldNeedsQuotes is false, and otherwise in pieces cut at the next special character (R01.3f). Further: a separator that is not a constant is looked for in the accumulated line and never in the piece ReadString has just returned (R01.3g); a buffer kept in a struct field and re-sliced to a computed length is handed on only after counting loops have assigned every cell below that length (R01.3h); the batch getters of the CSV-lite and TSV readers all test for the byte-order mark (R01.9). R01.2 also sees header cells copied in bulk (copy) into the header list.",
    "C03": " Also: no in-place alteration reaches a value that is neither fresh nor the function's own parameter, with no frozen exception left for the indexed-assignment and json-parse sites (the analysis sees that a value is known to be a collection, or a merge of fresh values and known collections); indexed assignment installs no package-level singleton into a slot it then converts in place (R03.6).",
    "C05": " Also: the verbs do not consult the reader's NR/FNR other than for messages (R05.10); a value the verb keeps in its own state enters a record only as a copy (R05.11); a function given both a handle and the decompression flag hands the handle back unwrapped only where every decompressing value of the flag is excluded (R05.12); the command line of a prepipe child contains a file name only through the quoting function (R05.13). Further: the end blocks run after an unconditional State.Update in the end-of-stream branch (R05.14); a flag parser's store to the file-name lists appends to the field's present value (R05.15).",
    "C08": " Also: an evaluated value that is put into a map by the interpreter (map literals, emitf) is dominated by the absent test, as assignments are (R08.9b); math-class functions of two or three arguments that are not table dispatches return absent for an absent argument in any position (abstract kind evaluation, R08.4b); the right-hand side of a compound assignment is the operator node itself (R08.10b).",
    "C09": " Also: every sort call of the sort, top and sort-within-records verbs is a stable sort or a sort of plain strings (R09.9). Further: a slice that a DSL sorting function builds, sorts and returns is written on every turn of the loop that fills it (R09.11).",
    "C10": " Also: every sort call of the aggregating verbs is stable (R10.7); grouping keys joined through a helper or by hand in a buffer are covered by the injective-key rule (R10.6); ignoring the ok result of a selector is accepted only where every element is individually nil-tested (computed, not listed); every one-sided neighbour redirection in a doubly linked container (ordered map, record, recency list) is completed on every path (R10.8). Further: the element count handed to the key-writing helper is the same for every element of one key (R10.6c).",
    "C11": " Also: no selecting verb reads the reader's NR/FNR (R11.7).",
    "C12": " Also: every path of a restructuring verb's record function emits, delegates or keeps the record — an emitting loop counts only where it is entered on the non-empty edge of a test of what it walks (R12.6); sorts are stable (R12.7); a run-time string spliced into a regular expression is QuoteMeta'd (R12.8). Further: an entry is not its own collision — an unlink of one of two looked-up entries is past a test that they differ (R12.10); a function that stores a.Next = b stores b.Prev = a and the other way round (R12.11).",
    "C14": " Also: every control-flow cycle through the body of a while, do-while or triple-for executor passes through a read of the condition and through the update block (R14.11); a function that opens a frame set for a call returns a nil block-exit payload (R14.12); no cycle in the interpreter both steps along a map's entry list and executes a statement block or callback (R14.13). Further: indexed assignment stores a fresh empty collection into an array slot only past IsArrayOrMap() == false on that slot (R14.14).",
    "C16": " Also: the %1S … %9S table of strftime is read from the registered closures: width k and divisor 10^(9-k) (R16.6). Further: where a function takes the sign off a number and records it, every non-error result after the merge depends on the record (R16.7).",
    "C17": " Also: a consumer holding a reader's record and error channels receives records only in a blocking select that also receives the error channel, and polls the error channel on the end-of-stream path (R17.16); the data result of ReadString/ReadBytes is used or known to be empty on every path to a return or the next read (R17.17); the ProcessState of every child command, input or output, is used (R17.13, without exceptions). Further: the error result of executing a statement block never flows into mlrval.FromError — a failed statement does not become data (R17.18). Further: the record that the CSV library returns together with an error is used only where the error is nil or the field-count error (R17.19); R17.8 knows the collect-then-report form of the end-of-stream close.",
    "C18": " Also: a path typestate over every verb parser, argument helper and flag parser establishes argc - i >= 1 before each args[i] (R18.10); no map update writes to a value that is nil on a merging edge (R18.11); a slice x[a:len(x)-b] with a,b >= 1 needs an established len(x) >= a+b, where HasPrefix and HasSuffix give the longer length, not the sum, and the text of a match of a constant regexp is at least its shortest match (R18.4d); a constant upper bound needs an established lower bound and a summed bound a test against the same sum (R18.4e); in the readers no path leads from a header/data length mismatch to the cell-by-cell header read of the same line (R18.4f); every use of state.Inrec as a record is dominated by a nil test (R18.13); a recursive walk over the AST reads a constant-index child only with the number of children established (R18.14). Further: no internal-coding assertion is made on the outcome of parsing text (R18.15). Further: every separator handed to NewLineReader is a non-empty constant or an option that FinalizeReaderOptions refuses when empty (R18.16); an index made from a float64 has integer tests on both sides, or the float has passed the true side of an ordered comparison, and an upper integer test (R18.17); the self-recursive JSON token reader carries a depth compared with a constant (R18.18); no argument of a min that clamps an index is len of the indexed value (R18.19); in package cst a method call on what Mlrmap.Get returned is past a nil test (R18.20).",
    "C19": " Also: WrapOutputHandle has an explicit case for every decompressing encoding, and FindInputEncoding's file-name suffixes agree with the read path's (R19.9). Further: no function of package climain stores to a package-level variable — in-place mode parses once per file (R19.10); the per-file loop is preceded by a loop that applies the refusal tests to every name (R19.11).",
    "C20": " Also: every function that rewrites a link of the recency list maintains both end pointers (R20.9, found by type shape, not by name); split, like tee, never sends on the upstream done channel (R20.6), and every successful path of its record functions consults the pass-through option or appends (R20.10). Further: a loop that calls Close leaves only through its header (R20.11) — R20.4 alone had checked that the loop closes, not that it cannot be left early.",
}

NOT_APPLICABLE = {
}

CLAIMS["C13"] = (
    "table reader over the case blocks of the join verb's option switch + side provenance of every key computation (right = a record function's input, left = received from the left file's reader channel) + dominating-guard check of every emission call and of the was-paired store + path rule over the left-file ingest loop, all on SSA",
    "Decides the shape facts every pairing rests on, and nothing about which records pair: each flag of the join verb's own parser stores what its documentation says (--np, --ul, --ur, --ignore-empty, -u, -s, -j, -l, -r, --lp, --rp, --lk, -f); a record of the right stream is keyed by rightJoinFieldNames and a record of the left file by leftJoinFieldNames; paired records are formed only under emitPairables, unpaired right records emitted only under emitRightUnpairables, unpaired left ones only under emitLeftUnpairables, none under a test of another of the three; a bucket is marked paired where a right record finds it, under no test of emitPairables (--np --ul); every function that forms keys tests them with anyValueIsEmpty under ignoreEmptyJoinFields; every left record whose key was taken is appended to a bucket or to the unpairable list on every path (or dropped on the false side of emitLeftUnpairables); every option field the parser stores into is read somewhere (R13.7: --prepipe was not); the constructor fills left…/right… fields from option fields of the same side only (R13.8); ingestLeftFile stands under no test of EndOfStream (R13.9). NOT decided: key equality as text, order of pairs, composition of the paired record and --lp/--rp collisions, the sorted-mode bucket keeper, equivalence of -s and -u on sorted input — the bulk of the statement.",
    "Trusts go/ssa. The flag-to-field table is the documented meaning of the flags, frozen in checker/c13.go; the option field names are the repository's own and a rename makes R13.1 undecided. Built late (after six seeding rounds for the other properties); validated by six breaking and three benign variants of my own and by one late seeding run of four changes, of which it reported none before and two after rules were written for them (DESIGN §6).",
    "DESIGN.md §3 C13",
)

PENDING_REASON = "static check for this property is not built yet in this snapshot of /verif (see DESIGN.md §3 for the planned rules)"

def main():
    props = [json.loads(l)["id"] for l in open(os.path.join(HERE, "properties.jsonl"))]
    checks = []
    na = []
    for pid in props:
        if pid in CLAIMS:
            tech, text, note, ref = CLAIMS[pid]
            checks.append({
                "property_id": pid,
                "quick_cmd": "./check.sh %s quick" % pid,
                "thorough_cmd": "./check.sh %s thorough" % pid,
                "evidence_file": "evidence/%s.json" % pid,
                "replay_cmd_template": "./check.sh --explain {path}",
                "engine": "mlrlint",
                "level_claimed": {"category": "other", "text": text + ADDENDA.get(pid, ""), "design_ref": ref},
                "level_note": note,
                "technique": tech,
            })
        elif pid in NOT_APPLICABLE:
            na.append({"property_id": pid, "reason": NOT_APPLICABLE[pid]})
        else:
            na.append({"property_id": pid, "reason": PENDING_REASON})
    manifest = {
        "version": 1,
        "setup_cmd": "./setup.sh",
        "hooks": {
            "guard": "verif",
            "enable": "none needed: the checks are static and read /repo's working tree; no build-tagged hook exists",
            "baseline_off_cmd": "cd /repo && go test -vet=off -count=1 ./pkg/...",
            "source_commits": [],
            "add_only": True,
        },
        "engines": [{
            "name": "mlrlint",
            "path": "checker/",
            "serves_properties": sorted(CLAIMS.keys()),
            "kind_free_text": "repository-specific static analyser (go/packages + go/types + go/ssa + go/cfg + call graphs from golang.org/x/tools v0.50.0); one rule file per property; obligations keyed by rule+construct; known findings in known_findings.jsonl",
        }],
        "checks": checks,
        "not_applicable": na,
        "notes": "All claims are level 'other': each check decides structural necessary conditions of its property from the source (no execution) and states in its evidence what it does not decide. Genuine defects found are either repaired by 'fix:' commits in /repo or listed in known_findings.jsonl (see DESIGN.md §7).",
    }
    with open(os.path.join(HERE, "MANIFEST.json"), "w") as f:
        json.dump(manifest, f, indent=1)
        f.write("\n")
    print("MANIFEST.json: %d checks, %d not_applicable" % (len(checks), len(na)))

if __name__ == "__main__":
    main()
